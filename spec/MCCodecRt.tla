----------------------------- MODULE MCCodecRt -----------------------------
(* C01: the value space (one TLC state per value) and the design check:     *)
(* the specified decoder applied to the specified layout, embedded between  *)
(* two sentinels, returns the normalised value, consumes exactly ByteLen    *)
(* bytes, releases every depth lock, and the decoded value round-trips      *)
(* again.                                                                    *)
EXTENDS Codec
CONSTANT Lvl          \* nesting levels of Variant / DataValue / array containers above the scalar level

G16 == [i \in 1..16 |-> i]
Strs3 == {NullStr, S(<<>>), S(<<97>>)}
Strs == Strs3 \cup {S(<<97, 98>>)}
NodeIds == {NumId(0, 0), NumId(0, 255), NumId(0, 256), NumId(1, 0), NumId(255, 65535), NumId(256, 1), NumId(1, 65536),
            NumId(65535, 2147483647), StrId(1, NullStr), StrId(1, S(<<>>)), StrId(2, S(<<97>>)), StrId(300, S(<<97, 98>>)),
            GuidId(3, G16), OpqId(4, NullStr), OpqId(4, S(<<>>)), OpqId(4, S(<<1, 2>>))}
XNids == {XNid(id, uri, srv) : id \in {NumId(0, 5), NumId(1, 300), NumId(300, 70000), StrId(1, S(<<97>>)), GuidId(2, G16), OpqId(1, S(<<9>>))},
                               uri \in {NullStr, S(<<>>), S(<<117>>)}, srv \in {0, 1, 65536}}
Qns == {Qn(ns, nm) : ns \in {0, 1, 65535}, nm \in Strs3}
Lts == {Lt(a, b) : a \in Strs3, b \in Strs3}
Eos == {Eo(id, "none", NullStr) : id \in {NullId, NumId(0, 5), NumId(1, 300), StrId(1, S(<<97>>))}}
       \cup {Eo(id, "bytes", b) : id \in {NullId, NumId(1, 300)}, b \in {NullStr, S(<<>>), S(<<1, 2, 3>>)}}
       \cup {Eo(NumId(1, 300), "xml", b) : b \in {NullStr, S(<<60>>)}}
FixVals == {VFix("Boolean", <<0>>), VFix("Boolean", <<1>>), VFix("SByte", <<255>>), VFix("Byte", <<7>>), VFix("Byte", <<0>>),
            VFix("Int16", <<1, 2>>), VFix("UInt16", <<255, 255>>), VFix("Int32", <<1, 2, 3, 4>>), VFix("Int32", <<255, 255, 255, 255>>),
            VFix("UInt32", <<4, 3, 2, 1>>), VFix("Int64", <<1, 2, 3, 4, 5, 6, 7, 8>>), VFix("UInt64", <<255, 255, 255, 255, 255, 255, 255, 255>>),
            VFix("Float", <<0, 0, 128, 63>>), VFix("Double", <<0, 0, 0, 0, 0, 0, 240, 63>>), VFix("Guid", G16),
            VFix("StatusCode", <<0, 0, 0, 0>>), VFix("StatusCode", <<0, 0, 7, 128>>)}
\* DiagnosticInfo: every subset of the six optional fields in the first link; chains of one to three links
F6 == {"sym", "nsu", "lcl", "ltx", "add", "ist"}
LinkOf(fs) == DiLink(IF "sym" \in fs THEN Some(1) ELSE None, IF "nsu" \in fs THEN Some(2) ELSE None,
                     IF "lcl" \in fs THEN Some(3) ELSE None, IF "ltx" \in fs THEN Some(-1) ELSE None,
                     IF "add" \in fs THEN SomeS(S(<<105>>)) ELSE NoneS, IF "ist" \in fs THEN SomeR(<<0, 0, 7, 128>>) ELSE NoneR)
Tails == {<<>>, <<DiNullLink>>, <<LinkOf({"sym", "add"}), LinkOf({"ist"})>>}
Dis == {<<LinkOf(fs)>> \o t : fs \in SUBSET F6, t \in Tails}
      \cup {<<DiLink(None, None, None, None, SomeS(NullStr), NoneR)>>, <<DiLink(None, None, None, None, SomeS(S(<<>>)), NoneR)>>}
DiReps == {<<DiNullLink>>, <<LinkOf({"sym", "add"}), DiNullLink>>}
\* DataValue: every valid presence combination (picoseconds only with their timestamp)
TsSet == {NoTs, Ts(1, "mid", 0), Ts(2, "mid", 513), Ts(1, "midsub", 0), Ts(2, "post", 65535)}
TsCore == {NoTs, Ts(1, "mid", 0), Ts(2, "mid", 513)}
DvOver(vs) == {Dv(TRUE, v, hs, IF hs THEN <<0, 0, 7, 128>> ELSE Zeros(4), a, b) : v \in vs, hs \in BOOLEAN, a \in TsCore, b \in TsCore}
DvNoValue == {Dv(FALSE, VEmpty, hs, IF hs THEN <<0, 0, 7, 128>> ELSE Zeros(4), a, b) : hs \in BOOLEAN, a \in TsSet, b \in TsSet}

Scal0 == {VEmpty} \cup FixVals \cup {VDt(n) : n \in DtNames}
         \cup {VStr(t, s) : t \in {"String", "ByteString", "XmlElement"}, s \in Strs}
         \cup {VNode(i) : i \in NodeIds} \cup {VXNode(x) : x \in XNids} \cup {VQn(q) : q \in Qns} \cup {VLt(l) : l \in Lts}
         \cup {VEo(e) : e \in Eos} \cup {VDi(c) : c \in Dis}
\* two elements per element type for the arrays
ElemA(t) == CASE t = "Boolean" -> VFix(t, <<1>>) [] t \in {"SByte", "Byte"} -> VFix(t, <<7>>) [] t \in {"Int16", "UInt16"} -> VFix(t, <<1, 2>>)
              [] t \in {"Int32", "UInt32", "Float", "StatusCode"} -> VFix(t, <<0, 0, 7, 128>>)
              [] t \in {"Int64", "UInt64", "Double"} -> VFix(t, <<1, 2, 3, 4, 5, 6, 7, 8>>) [] t = "Guid" -> VFix(t, G16)
              [] t = "DateTime" -> VDt("mid") [] t \in {"String", "ByteString", "XmlElement"} -> VStr(t, S(<<97>>))
              [] t = "NodeId" -> VNode(NumId(1, 300)) [] t = "ExpandedNodeId" -> VXNode(XNid(NumId(0, 5), S(<<117>>), 1))
              [] t = "QualifiedName" -> VQn(Qn(1, S(<<97>>))) [] t = "LocalizedText" -> VLt(Lt(S(<<101>>), S(<<97>>)))
              [] t = "ExtensionObject" -> VEo(Eo(NumId(1, 300), "bytes", S(<<1, 2, 3>>)))
              [] t = "DataValue" -> VDv(Dv(TRUE, VFix("Byte", <<7>>), TRUE, <<0, 0, 7, 128>>, Ts(2, "mid", 513), NoTs))
              [] t = "Variant" -> VVar(VFix("Byte", <<7>>)) [] t = "DiagnosticInfo" -> VDi(<<LinkOf({"sym", "add"}), DiNullLink>>)
ElemB(t) == CASE t = "Boolean" -> VFix(t, <<0>>) [] t \in {"SByte", "Byte"} -> VFix(t, <<255>>) [] t \in {"Int16", "UInt16"} -> VFix(t, <<0, 0>>)
              [] t \in {"Int32", "UInt32", "Float", "StatusCode"} -> VFix(t, <<0, 0, 0, 0>>)
              [] t \in {"Int64", "UInt64", "Double"} -> VFix(t, Zeros(8)) [] t = "Guid" -> VFix(t, Zeros(16))
              [] t = "DateTime" -> VDt("post") [] t \in {"String", "ByteString", "XmlElement"} -> VStr(t, NullStr)
              [] t = "NodeId" -> VNode(StrId(2, S(<<97>>))) [] t = "ExpandedNodeId" -> VXNode(XNid(StrId(1, S(<<97>>)), NullStr, 0))
              [] t = "QualifiedName" -> VQn(Qn(0, NullStr)) [] t = "LocalizedText" -> VLt(Lt(NullStr, S(<<>>)))
              [] t = "ExtensionObject" -> VEo(Eo(NullId, "none", NullStr))
              [] t = "DataValue" -> VDv(DvNull)
              [] t = "Variant" -> VVar(VArr("Byte", <<VFix("Byte", <<1>>), VFix("Byte", <<2>>)>>, NoDims))
              [] t = "DiagnosticInfo" -> VDi(<<DiNullLink>>)
DimsFor(n) == CASE n = 0 -> {NoDims, Dims(<<>>), Dims(<<0>>), Dims(<<0, 2>>), Dims(<<2, 0>>)}
                [] n = 1 -> {NoDims, Dims(<<1>>), Dims(<<1, 1>>)}
                [] n = 2 -> {NoDims, Dims(<<2>>), Dims(<<1, 2>>), Dims(<<2, 1>>)}
                [] n = 4 -> {NoDims, Dims(<<4>>), Dims(<<2, 2>>), Dims(<<2, 1, 2>>)}
ArrOf(t, a, b) == {VArr(t, items, dm) : items \in {<<>>, <<a>>, <<a, b>>, <<b, a, a, b>>}, dm \in UNION {DimsFor(n) : n \in {0, 1, 2, 4}}}
ArrsOf(t, a, b) == {x \in ArrOf(t, a, b) : x.dims \in DimsFor(Len(x.items))}
Arr0 == UNION {ArrsOf(t, ElemA(t), ElemB(t)) : t \in ScalarTypes}

\* representatives that are carried into the next nesting level
Rep0 == {VEmpty, VFix("Byte", <<7>>), VStr("String", S(<<97>>)), VLt(Lt(S(<<>>), S(<<97>>))), VDt("midsub"),
         VEo(Eo(NumId(1, 300), "bytes", S(<<1, 2, 3>>))), VDi(<<LinkOf({"sym", "add"}), DiNullLink>>),
         VArr("Int32", <<VFix("Int32", <<1, 2, 3, 4>>), VFix("Int32", <<0, 0, 0, 0>>)>>, Dims(<<1, 2>>)),
         VArr("String", <<>>, Dims(<<0, 2>>)), VArr("Byte", <<>>, NoDims)}
RECURSIVE RepL(_)
Up(vs) == {VVar(x) : x \in vs} \cup {VDv(d) : d \in {Dv(TRUE, x, FALSE, Zeros(4), NoTs, NoTs) : x \in vs}}
          \cup UNION {{VArr("Variant", <<VVar(x)>>, NoDims), VArr("Variant", <<VVar(x), VVar(VEmpty)>>, Dims(<<2, 1>>)),
                       VArr("DataValue", <<VDv(Dv(TRUE, x, TRUE, <<0, 0, 7, 128>>, NoTs, Ts(1, "mid", 0))), VDv(DvNull)>>, NoDims)} : x \in vs}
RepL(k) == IF k = 0 THEN Rep0 ELSE Up(RepL(k - 1))
Level(k) == IF k = 0 THEN Scal0 \cup Arr0
            ELSE Up(RepL(k - 1)) \cup (IF k = 1 THEN {VDv(d) : d \in DvOver({VFix("Byte", <<7>>), VDt("post")}) \cup DvNoValue} ELSE {})
                 \* wide (Lvl >= 2): every scalar and every array once more inside a Variant, every array inside a DataValue
                 \cup (IF k = 1 /\ Lvl >= 2 THEN {VVar(x) : x \in Scal0 \cup Arr0} \cup {VDv(Dv(TRUE, x, FALSE, Zeros(4), NoTs, NoTs)) : x \in Arr0}
                      ELSE {})
Variants == UNION {Level(k) : k \in 0..Lvl}

VarReps == Rep0 \cup (IF Lvl >= 1 THEN {VVar(VVar(VFix("Byte", <<7>>))), VVar(VDv(Dv(TRUE, VVar(VEmpty), FALSE, Zeros(4), NoTs, NoTs)))} ELSE {})
DvReps == {DvNull, Dv(TRUE, VFix("Byte", <<7>>), TRUE, <<0, 0, 7, 128>>, Ts(2, "mid", 513), Ts(1, "post", 0)),
           Dv(TRUE, VArr("String", <<>>, Dims(<<0>>)), FALSE, Zeros(4), NoTs, NoTs),
           Dv(TRUE, VVar(VDv(Dv(TRUE, VLt(Lt(S(<<>>), NullStr)), FALSE, Zeros(4), NoTs, NoTs))), FALSE, Zeros(4), NoTs, NoTs)}
Arrs(xs) == {OptArr(FALSE, <<>>), OptArr(TRUE, <<>>)} \cup {OptArr(TRUE, <<x>>) : x \in xs} \cup {OptArr(TRUE, <<x, y>>) : x \in xs, y \in xs}
Wvs == {[id |-> id, attr |-> 13, range |-> r, dv |-> d] : id \in {NullId, StrId(2, S(<<97>>))}, r \in {NullStr, S(<<49>>)}, d \in DvReps}
Cms == {[obj |-> NumId(0, 5), meth |-> NumId(1, 300), args |-> a] : a \in Arrs({VFix("Byte", <<7>>), VVar(VEmpty), VArr("Byte", <<>>, Dims(<<0>>))})}
MsgCases == {[ty |-> "WriteRequest", w |-> WrapC("WriteRequest", [aud |-> a, nodes |-> n])] : a \in {NullStr, S(<<97>>)},
                n \in {OptArr(FALSE, <<>>), OptArr(TRUE, <<>>)} \cup {OptArr(TRUE, <<w>>) : w \in Wvs}
                      \cup {OptArr(TRUE, <<w, [id |-> NullId, attr |-> 1, range |-> NullStr, dv |-> DvNull]>>) : w \in Wvs}}
            \cup {[ty |-> "CallRequest", w |-> WrapC("CallRequest", [aud |-> NullStr, calls |-> n])] : n \in Arrs(Cms)}
            \cup {[ty |-> "ReadResponse", w |-> WrapC("ReadResponse", [di |-> d, tbl |-> OptArr(FALSE, <<>>), results |-> r, diags |-> g])] :
                     d \in DiReps, r \in Arrs(DvReps), g \in Arrs(DiReps)}
            \cup {[ty |-> "ServiceFault", w |-> WrapC("ServiceFault", [di |-> d, tbl |-> t])] : d \in Dis, t \in {OptArr(FALSE, <<>>), OptArr(TRUE, <<S(<<97>>), NullStr>>)}}

Cases == {[ty |-> "Variant", w |-> WrapC("Variant", x)] : x \in Variants}
         \cup {[ty |-> "DataValue", w |-> WrapC("DataValue", d)] : d \in DvOver(VarReps) \cup DvNoValue}
         \cup {[ty |-> "DiagnosticInfo", w |-> WrapC("DiagnosticInfo", c)] : c \in Dis}
         \cup {[ty |-> "ExtensionObject", w |-> WrapC("ExtensionObject", e)] : e \in Eos}
         \cup {[ty |-> "NodeId", w |-> WrapC("NodeId", i)] : i \in NodeIds}
         \cup {[ty |-> "ExpandedNodeId", w |-> WrapC("ExpandedNodeId", x)] : x \in XNids}
         \cup {[ty |-> "LocalizedText", w |-> WrapC("LocalizedText", l)] : l \in Lts}
         \cup {[ty |-> "QualifiedName", w |-> WrapC("QualifiedName", q)] : q \in Qns}
         \cup {[ty |-> "String", w |-> WrapC("String", s)] : s \in Strs} \cup {[ty |-> "ByteString", w |-> WrapC("ByteString", s)] : s \in Strs}
         \cup MsgCases

VARIABLE c
Init == c \in Cases
Next == UNCHANGED c
Spec == Init /\ [][Next]_c

Sent == <<165, 90, 195>>
RoundTrip(ty, v, dvn) ==
  LET B == Enc(ty, v)
      r == DecAt(ty, Sent \o B \o Sent, [St0 EXCEPT !.p = Len(Sent) + 1], DefaultOpts, dvn)
  IN [ok |-> r.s.ok, used |-> r.s.p - Len(Sent) - 1, n |-> Len(B), d |-> r.s.d, v |-> r.v, pk |-> r.s.pk]
RtOK(ty, v, dvn) ==
  LET a == RoundTrip(ty, v, dvn) IN
  /\ ByteLen(ty, v) = a.n
  /\ a.ok /\ a.used = a.n /\ a.d = 0
  /\ Norm(ty, a.v) = Norm(ty, v)
  /\ a.pk <= AllocBound(DefaultOpts, a.n, ElemBytes)
  /\ LET b == RoundTrip(ty, a.v, dvn) IN b.ok /\ b.used = b.n /\ Norm(ty, b.v) = Norm(ty, v)
DesignOK == RtOK(c.ty, UnwrapC(c.ty, c.w), Design)
\* the tree before the repair: the dimensions of an array without elements were never consumed
DevOK == RtOK(c.ty, UnwrapC(c.ty, c.w), [Design EXCEPT !.dims = "never"])
\* the repaired tree: they are consumed for length 0 (a null array, length -1, is pinned by an existing test)
TreeOK == RtOK(c.ty, UnwrapC(c.ty, c.w), [Design EXCEPT !.dims = "nonnull"])
=============================================================================
