------------------------------ MODULE TraceRenew ------------------------------
EXTENDS Integers, Sequences, FiniteSets, SequencesExt, TLC, Json, IOUtils
MP == INSTANCE RenewProps
Obs == ndJsonDeserialize(IOEnv.OBS)
VARIABLES l, mon, out
TInit == l = 1 /\ mon = MP!MInit /\ out = <<>>
TNext ==
  \/ /\ l <= Len(Obs)
     /\ LET e == Obs[l]
            g == IF e.i = 1 THEN MP!MInit ELSE mon
            r == MP!Mon14Step(g, e)
            s == SetToSeq(r.viol)
        IN /\ mon' = r.g
           /\ out' = out \o [j \in 1..Len(s) |-> [case |-> e.case, i |-> e.i, prop |-> "C14", clause |-> s[j]]]
     /\ l' = l + 1
  \/ /\ l = Len(Obs) + 1 /\ ndJsonSerialize(IOEnv.VERDICT, out) /\ l' = l + 1 /\ UNCHANGED <<mon, out>>
TSpec == TInit /\ [][TNext]_<<l, mon, out>>
=============================================================================
