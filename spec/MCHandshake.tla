----------------------------- MODULE MCHandshake -----------------------------
EXTENDS Handshake
VARIABLES mon, viol
MP == INSTANCE HandshakeProps
MInit == DInit /\ mon = MP!MInit /\ viol = [c15 |-> {}, c10 |-> {}]
MNext == DNext /\ LET r15 == MP!Mon15Step(mon, evt')  r10 == MP!Mon10Step(mon, evt')
                  IN mon' = r15.g /\ viol' = [c15 |-> r15.viol, c10 |-> r10.viol]
MSpec == MInit /\ [][MNext]_<<vars, depth, mon, viol>>
C15 == viol.c15 = {}
C10 == viol.c10 = {}
MView == <<tstate, issued, pending, pmsg, depth, mon, viol>>
=============================================================================
