----------------------------- MODULE TraceClientAcks -----------------------------
(* Judge: the observation records of the harness (one per step made on the real   *)
(* Session / SubscriptionState) through the L2 monitor of ClientAcksProps.tla.    *)
EXTENDS Integers, Sequences, FiniteSets, SequencesExt, TLC, Json, IOUtils

MP == INSTANCE ClientAcksProps

Obs == ndJsonDeserialize(IOEnv.OBS)

VARIABLES l, mon, out, dead

SoftCap == 300

TInit == l = 1 /\ mon = MP!M36Init /\ out = <<>> /\ dead = FALSE

TNext ==
  \/ /\ l <= Len(Obs)
     /\ LET e == Obs[l]
            g == IF e.i = 1 THEN MP!M36Init ELSE mon
            dd == IF e.i = 1 THEN FALSE ELSE dead
            \* a step of the real code that did not return is not judged (reported as drift) and ends the case
            r == IF e.fail # "none" THEN [g |-> g, viol |-> {}, hard |-> FALSE] ELSE MP!Mon36Step(g, e)
            s == SetToSeq(r.viol)
        IN /\ mon' = r.g
           \* verdicts that only say "a keep-alive was acknowledged like a notification message" are listed for the
           \* first SoftCap lines only (they repeat in every history with a keep-alive); all others are always listed
           /\ out' = IF dd \/ (~r.hard /\ Len(out) >= SoftCap) THEN out
                     ELSE out \o [j \in 1..Len(s) |-> [case |-> e.case, i |-> e.i, prop |-> "C36", clause |-> s[j]]]
           \* after a violation the rest of the case is not judged -- except after clauses that only say that a keep-alive was
           \* acknowledged like a notification message, so that any other double acknowledgement stays visible
           /\ dead' = (dd \/ r.hard \/ e.fail # "none")
     /\ l' = l + 1
  \/ /\ l = Len(Obs) + 1
     /\ ndJsonSerialize(IOEnv.VERDICT, out)
     /\ l' = l + 1
     /\ UNCHANGED <<mon, out, dead>>

TSpec == TInit /\ [][TNext]_<<l, mon, out, dead>>
=============================================================================
