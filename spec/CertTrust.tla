------------------------------ MODULE CertTrust ------------------------------
(***************************************************************************)
(* C18  Certificate trust verdicts follow the configured trust store.       *)
(*                                                                          *)
(* State: the trusted and the rejected store, as far as the certificate     *)
(* under validation is concerned: each store holds no file under the        *)
(* certificate's name ("absent"), a byte-identical copy ("same") or a file  *)
(* of that name with other bytes ("diff").  (File names contain the         *)
(* thumbprint, so the stores of different certificates are independent.)    *)
(* Action Validate(store, cert, flags, request) returns the verdict and the *)
(* new store.  A case is an initial store, a certificate (key length for a  *)
(* policy, validity period) and a history of one or two validations of it.  *)
(***************************************************************************)
EXTENDS Integers, Sequences, FiniteSets, TLC

CONSTANTS KeyCombos,    \* set of <<policy, key bits>>
          Histories     \* "full" or "small": how many two-step histories

In == {"absent", "same", "diff"}
Stores == [trusted : In, rejected : In]
Times == {"valid", "expired", "notyet"}
Match == {"match", "mismatch", "none"}          \* the expected host name / application URI: equal, different, not requested
Flags == [tu : BOOLEAN, sv : BOOLEAN, ct : BOOLEAN, host : Match, uri : Match]   \* trust unknown, skip verify, check time

\* Part 7: AsymmetricKeyLength limits of the security policies
KeyLenValid(pol, bits) == IF pol \in {"Basic128Rsa15", "Basic256"} THEN 1024 <= bits /\ bits <= 2048
                          ELSE 2048 <= bits /\ bits <= 4096

Certs == {[pol |-> k[1], bits |-> k[2], time |-> t] : k \in KeyCombos, t \in Times}

-----------------------------------------------------------------------------
(* L1: CertificateStore::validate_or_reject_application_instance_cert as specified                          *)
Res(status, s) == [status |-> status, trusted |-> s.trusted, rejected |-> s.rejected]
Reject(status, s) == Res(status, [s EXCEPT !.rejected = "same"])     \* the certificate is written to the rejected store

Validate(s, cert, f) ==
  IF s.rejected # "absent" THEN Res("BadSecurityChecksFailed", s)
  ELSE IF s.trusted = "absent" /\ ~f.tu THEN Reject("BadCertificateUntrusted", s)
  ELSE LET s1 == IF s.trusted = "absent" THEN [s EXCEPT !.trusted = "same"] ELSE s      \* unknown but trusted: stored
       IN IF s1.trusted # "same" THEN Res("BadUnexpectedError", s1)
          ELSE IF ~KeyLenValid(cert.pol, cert.bits) THEN Res("BadSecurityChecksFailed", s1)
          ELSE IF f.sv THEN Res("Good", s1)
          ELSE IF f.ct /\ cert.time # "valid" THEN Reject("BadCertificateTimeInvalid", s1)
          ELSE IF f.host = "mismatch" THEN Reject("BadCertificateHostNameInvalid", s1)
          ELSE IF f.uri = "mismatch" THEN Reject("BadCertificateUriInvalid", s1)
          ELSE Res("Good", s1)

\* the results of a history
RECURSIVE Run(_, _, _)
Run(s, cert, steps) == IF steps = <<>> THEN <<>>
                       ELSE LET r == Validate(s, cert, Head(steps))
                            IN <<r>> \o Run([trusted |-> r.trusted, rejected |-> r.rejected], cert, Tail(steps))

-----------------------------------------------------------------------------
(* L2: the property on one validation: pre = store before, f = flags and request, r = verdict and store after *)
StepViol(pre, cert, f, r) ==
  LET accepted == r.status = "Good"
  IN (IF accepted /\ pre.rejected = "same" THEN {"accepted-although-in-the-rejected-store"} ELSE {})
     \cup (IF accepted /\ ~(pre.trusted = "same" \/ f.tu) THEN {"accepted-without-identical-copy-in-the-trusted-store"} ELSE {})
     \cup (IF accepted /\ ~KeyLenValid(cert.pol, cert.bits) THEN {"accepted-with-invalid-key-length"} ELSE {})
     \cup (IF accepted /\ ~f.sv /\ f.ct /\ cert.time # "valid" THEN {"accepted-outside-validity-period"} ELSE {})
     \cup (IF accepted /\ ~f.sv /\ f.host = "mismatch" THEN {"accepted-with-wrong-host-name"} ELSE {})
     \cup (IF accepted /\ ~f.sv /\ f.uri = "mismatch" THEN {"accepted-with-wrong-application-uri"} ELSE {})
     \cup (IF pre.trusted = "absent" /\ pre.rejected = "absent" /\ ~f.tu /\ (accepted \/ r.rejected # "same")
           THEN {"unknown-untrusted-certificate-not-placed-in-the-rejected-store"} ELSE {})
     \cup (IF accepted /\ (r.rejected = "same" \/ r.rejected # pre.rejected) THEN {"accepted-certificate-placed-in-the-rejected-store"} ELSE {})

\* a history: the store before step i+1 is the store observed after step i
HistViol(c, steps) ==
  UNION {StepViol(IF i = 1 THEN c.store ELSE [trusted |-> steps[i - 1].trusted, rejected |-> steps[i - 1].rejected],
                  c.cert, c.steps[i], steps[i]) : i \in 1..Len(steps)}

\* (a panic of the code under test ends the history early; the property does not speak about panics, the check
\*  reports them as drift from the specified function)
TrustViol(e) == HistViol(e.c, e.r.steps)

-----------------------------------------------------------------------------
(* cases: every single validation, and two-step histories                                                    *)
One == {[store |-> s, cert |-> x, steps |-> <<f>>] : s \in Stores, x \in Certs, f \in Flags}

HStores == IF Histories = "full" THEN Stores
           ELSE {[trusted |-> "absent", rejected |-> "absent"], [trusted |-> "same", rejected |-> "absent"],
                 [trusted |-> "absent", rejected |-> "same"], [trusted |-> "diff", rejected |-> "absent"]}
HCerts == {x \in Certs : x.time \in {"valid", "expired"}}
HFlags1 == {f \in Flags : f.uri = "match" /\ f.host \in {"match", "mismatch"}}
HFlags2 == {f \in Flags : f.uri = "match" /\ f.host = "match"}
Two == {[store |-> s, cert |-> x, steps |-> <<f, g>>] : s \in HStores, x \in HCerts, f \in HFlags1, g \in HFlags2}

Cases == One \cup Two
Expected(c) == [fail |-> "none", site |-> "", steps |-> Run(c.store, c.cert, c.steps)]
=============================================================================
