---------------------------- MODULE TraceTextForms ----------------------------
(* Judge of C04 / C05: every observation record is judged on its own by TextViol (the set of violated clauses), *)
(* exactly as the generic TraceFn does, but Batch records per TLC state (hundreds of thousands of records).       *)
EXTENDS TextForms, Json, IOUtils, SequencesExt
CONSTANT Which
ObsLog == ndJsonDeserialize(IOEnv.OBS)
VARIABLES l, out
Batch == 1000
Verdicts(k) == {[case |-> ObsLog[k].case, i |-> ObsLog[k].i, prop |-> Which, clause |-> cl] : cl \in TextViol(ObsLog[k])}
TInit == l = 1 /\ out = <<>>
TNext ==
  \/ /\ l <= Len(ObsLog)
     /\ LET hi == IF l + Batch - 1 < Len(ObsLog) THEN l + Batch - 1 ELSE Len(ObsLog)
        IN /\ out' = out \o SetToSeq(UNION {Verdicts(k) : k \in l..hi})
           /\ l' = hi + 1
  \/ /\ l = Len(ObsLog) + 1
     /\ ndJsonSerialize(IOEnv.VERDICT, out)
     /\ l' = l + 1
     /\ UNCHANGED out
TSpec == TInit /\ [][TNext]_<<l, out>>
=============================================================================
