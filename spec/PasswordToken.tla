---------------------------- MODULE PasswordToken ----------------------------
(***************************************************************************)
(* C16  Encrypted user passwords round-trip, bind to the nonce, and never   *)
(* crash.                                                                   *)
(*                                                                          *)
(* Part 4, 7.36.2.2 (legacy encrypted token secret):                        *)
(*     plaintext = len32 o password o serverNonce,   len32 = |password| +   *)
(*     |serverNonce| as UInt32 little endian,                               *)
(* encrypted block-wise with the RSA key of the server certificate (blocks  *)
(* of keyBytes - overhead(padding) plaintext bytes).  RSA is symbolic:      *)
(* Dec(Enc(p)) = p, every other ciphertext fails to decrypt.                *)
(*                                                                          *)
(* Three kinds of cases (function-like pattern):                            *)
(*  "rt"    password x nonce x padding x key size: encrypt with the real    *)
(*          function, decrypt with the same nonce (both entry points) and   *)
(*          with variants of the nonce;                                     *)
(*  "craft" the harness builds the plaintext itself from the decision table *)
(*          (length prefix x password class x nonce relation), encrypts it  *)
(*          with openssl and hands it to the real decrypt functions;        *)
(*  "arb"   arbitrary byte strings as ciphertext.                           *)
(*                                                                          *)
(* Concretisation contract (harness): nonce bytes are adjacent-distinct     *)
(* and never occur in a password; class "hi" nonce bytes can not continue   *)
(* valid UTF-8, class "ascii" nonce bytes are printable ASCII.  Hence       *)
(* password o (non-empty part of the nonce) is valid UTF-8 iff class =      *)
(* "ascii".                                                                 *)
(***************************************************************************)
EXTENDS Integers, Sequences, FiniteSets, SequencesExt, TLC

CONSTANTS KeyBits,      \* RSA key sizes
          NonceLens,    \* nonce lengths of the round trip cases
          Passwords,    \* set of [cls, n] (n characters of class cls) of the round trip cases
          ByteCombos,   \* sequence of <<key bits, padding>> of the byte-level crafted plaintexts
          ByteSample    \* TRUE: every byte-level plaintext gets one of the combinations (spread evenly), FALSE: all of them

Paddings == {"pkcs1", "oaep-sha1", "oaep-sha256"}
Overhead(pad) == CASE pad = "pkcs1" -> 11 [] pad = "oaep-sha1" -> 42 [] pad = "oaep-sha256" -> 66
PlainBlock(bits, pad) == bits \div 8 - Overhead(pad)
AlgUri(pad) == CASE pad = "pkcs1" -> "http://www.w3.org/2001/04/xmlenc#rsa-1_5"
                 [] pad = "oaep-sha1" -> "http://www.w3.org/2001/04/xmlenc#rsa-oaep"
                 [] pad = "oaep-sha256" -> "http://opcfoundation.org/UA/security/rsa-oaep-sha2-256"
NextPad(pad) == CASE pad = "pkcs1" -> "oaep-sha1" [] pad = "oaep-sha1" -> "oaep-sha256" [] pad = "oaep-sha256" -> "pkcs1"

\* UTF-8 width of the character classes; "mixed" cycles ascii, latin, cjk, emoji
Width(cls) == CASE cls = "ascii" -> 1 [] cls = "latin" -> 2 [] cls = "cjk" -> 3 [] cls = "emoji" -> 4
PwBytes(pw) == IF pw.cls = "mixed" THEN 10 * (pw.n \div 4) + <<0, 1, 3, 6>>[(pw.n % 4) + 1] ELSE pw.n * Width(pw.cls)

MkNonce(l, cls) == IF l = 0 THEN [len |-> 0, cls |-> "hi"] ELSE [len |-> l, cls |-> cls]
Nonces == {MkNonce(l, k) : l \in NonceLens, k \in {"hi", "ascii"}}

\* password lengths that put the end of the plaintext around an RSA block boundary
Boundary(bits, pad, nl) == {n \in {k * PlainBlock(bits, pad) - 4 - nl + d : k \in {1, 2}, d \in {-1, 0, 1}} : n >= 0}

RtCases == {[kind |-> "rt", bits |-> b, pad |-> p, nonce |-> nn, pw |-> w]
             : b \in KeyBits, p \in Paddings, nn \in Nonces, w \in Passwords}
           \cup UNION {{[kind |-> "rt", bits |-> b, pad |-> p, nonce |-> nn, pw |-> [cls |-> "ascii", n |-> n]]
                        : n \in Boundary(b, p, nn.len)} : b \in KeyBits, p \in Paddings, nn \in {MkNonce(32, "hi"), MkNonce(0, "hi")}}

-----------------------------------------------------------------------------
(* nonce variants handed to the decrypt functions of a round trip case       *)
Variants(nl) == (IF nl >= 1 THEN {"flip-first", "flip-last", "other", "trunc", "dropfirst", "empty"} ELSE {})
                \cup {"ext", "long"}
\* length of the variant nonce
VarLen(c, v) == CASE v \in {"flip-first", "flip-last", "other"} -> c.nonce.len
                  [] v \in {"trunc", "dropfirst"} -> c.nonce.len - 1
                  [] v = "empty" -> 0
                  [] v = "ext" -> c.nonce.len + 1
                  [] v = "long" -> 4 + PwBytes(c.pw) + c.nonce.len + 9
(* "must-fail": the variant differs from the nonce and the plaintext body does not end with it;             *)
(* "ambiguous": the body  password o nonce  ends with the variant, so by the format the secret IS a token   *)
(*              for that nonce (with a longer password) -- no implementation can tell; only "no panic".     *)
Bind(c, v) == IF v \in {"flip-first", "flip-last", "other", "ext", "long"} THEN "must-fail"
              ELSE IF v = "trunc" /\ c.nonce.len >= 2 THEN "must-fail" ELSE "ambiguous"

(* L1: the specified decryption: outcome classes "ok-same" (the original password), "ok-other", "err"       *)
DecVariant(c, v) == IF Bind(c, v) = "must-fail" THEN "err"
                    ELSE IF c.nonce.cls = "ascii" THEN "ok-other" ELSE "err"

VarSeq(c) == SetToSeq(Variants(c.nonce.len))

RtSpec(c) == [fail |-> "none", site |-> "", enc |-> "ok",
              same |-> [legacy |-> "ok-same", token |-> "ok-same"],
              variants |-> [i \in 1..Len(VarSeq(c)) |->
                             [v |-> VarSeq(c)[i], len |-> VarLen(c, VarSeq(c)[i]),
                              legacy |-> DecVariant(c, VarSeq(c)[i]), token |-> DecVariant(c, VarSeq(c)[i])]],
              algs |-> [other |-> "err", unknown |-> "err"]]

-----------------------------------------------------------------------------
(* crafted plaintexts: decision table                                       *)
LenPrefixes == {"eq", "minus1", "plus1", "zero", "huge", "cut0", "cut2", "cut3"}   \* cutN: the plaintext is only N bytes long
PwClasses == {"empty", "ascii", "nonascii", "invalid"}
NonceRels(nl) == {"same", "ext"} \cup (IF nl >= 1 THEN {"diff", "trunc", "none"} ELSE {})
CraftNonces == {MkNonce(0, "hi"), MkNonce(1, "ascii"), MkNonce(32, "hi"), MkNonce(32, "ascii"), MkNonce(64, "hi")}

CraftCases == {[kind |-> "craft", bits |-> b, pad |-> p, nonce |-> nn, prefix |-> f, pwcls |-> w, nrel |-> r]
                : b \in KeyBits, p \in Paddings, nn \in CraftNonces, f \in LenPrefixes, w \in PwClasses,
                  r \in {"same", "ext", "diff", "trunc", "none"}}
Cut(f) == f \in {"cut0", "cut2", "cut3"}
PlainNonceLen(c) == CASE c.nrel \in {"same", "diff"} -> c.nonce.len [] c.nrel = "ext" -> c.nonce.len + 1
                      [] c.nrel = "trunc" -> c.nonce.len - 1 [] c.nrel = "none" -> 0
BodyEmpty(c) == c.pwcls = "empty" /\ PlainNonceLen(c) = 0
CraftOK(c) == /\ c.nrel \in NonceRels(c.nonce.len)
              /\ c.prefix = "zero" => ~BodyEmpty(c)          \* else "zero" is the correct prefix
              /\ Cut(c.prefix) => (c.pwcls = "empty" /\ c.nrel = "same")

WellFormed(c) == c.prefix = "eq" /\ c.nrel = "same"
(* the body ends with the server nonce although the plaintext was built with another one: only when the    *)
(* plaintext nonce is absent or cut to nothing and ... never, by the concretisation contract (password     *)
(* bytes are disjoint from nonce bytes, adjacent nonce bytes differ).                                       *)
CraftSpec(c) == [fail |-> "none", site |-> "",
                 out |-> LET o == IF WellFormed(c) /\ c.pwcls # "invalid" THEN "ok-same" ELSE "err"
                         IN [legacy |-> o, token |-> o]]

-----------------------------------------------------------------------------
(* arbitrary ciphertexts; k = key size in bytes                              *)
CipherLens == {"null", "0", "1", "k-1", "k", "k+1", "2k-1", "2k", "2k+1", "3k", "777"}
ArbCases == {[kind |-> "arb", bits |-> b, pad |-> p, clen |-> l, fill |-> f]
              : b \in KeyBits, p \in Paddings, l \in CipherLens, f \in {"zero", "ff", "rand"}}
ArbSpec(c) == [fail |-> "none", site |-> "", out |-> [legacy |-> "err", token |-> "err"]]

-----------------------------------------------------------------------------
(* byte-level crafted plaintexts ("bytes"): what a hostile client can send -- ANY bytes, correctly encrypted    *)
(* with the server's public key.  Here the model is concrete: nonce and plaintext are sequences of byte        *)
(* values, the plaintext is  L (4 bytes, little endian) o body, and the specified decryption is a total        *)
(* function on byte sequences.  All bytes are < 128, so every byte sequence is valid UTF-8.                    *)
LE32(n) == <<n % 256, (n \div 256) % 256, (n \div 65536) % 256, (n \div 16777216) % 256>>
Rand(i) == ((i * 37 + 11) % 126) + 1                       \* 1..126, never 0
RandSeq(n, k) == [i \in 1..n |-> Rand(i + k)]
ByteNonceLens == {0, 1, 2, 3, 4, 5, 32}
\* nonce classes: pseudo-random, all zero, 1..4 leading zero bytes, and <<len - 4, 0, 0, 0, ...>> (= a length prefix)
LeadZero(l, k) == [i \in 1..l |-> IF i <= k THEN 0 ELSE Rand(i)]
ByteNonces == UNION {{RandSeq(l, 0), [i \in 1..l |-> 0]} \cup {LeadZero(l, k) : k \in 1..4}
                     \cup (IF l >= 4 THEN {[i \in 1..l |-> IF i = 1 THEN l - 4 ELSE IF i <= 4 THEN 0 ELSE Rand(i)]} ELSE {})
                     : l \in ByteNonceLens}
BPw == <<112, 119>>                                          \* "pw"
Wrong(n) == IF n = <<>> THEN <<9>> ELSE [n EXCEPT ![Len(n)] = (n[Len(n)] % 126) + 1]
\* body classes: tails of the nonce, the whole nonce, password o nonce, password o wrong nonce, empty, unrelated bytes
Bodies(n) == {SubSeq(n, d + 1, Len(n)) : d \in {x \in 1..4 : x <= Len(n)}}
             \cup {n, BPw \o n, BPw \o Wrong(n), <<>>, RandSeq(3, 50), RandSeq(Len(n), 50)}
\* length prefix classes, relative to the nonce length and to the body
Prefixes32(n, body) == {LE32(x) : x \in {y \in {0, Len(n) - 5, Len(n) - 4, Len(n) - 3, Len(n) - 2, Len(n) - 1, Len(n), Len(n) + 1,
                                                Len(body), Len(body) + 1, Len(body) + Len(n)} : y >= 0}}
                       \cup {<<255, 255, 255, 255>>}
CombosFor(n, pt) == IF ByteSample THEN {ByteCombos[((Len(pt) + Len(n) + pt[1] + pt[Len(pt)]) % Len(ByteCombos)) + 1]}
                    ELSE {ByteCombos[i] : i \in 1..Len(ByteCombos)}
ByteCases == UNION {UNION {UNION {{[kind |-> "bytes", bits |-> k[1], pad |-> k[2], nonce |-> n, pt |-> pre \o body]
                                   : k \in CombosFor(n, pre \o body)} : pre \in Prefixes32(n, body)} : body \in Bodies(n)} : n \in ByteNonces}

LastK(s, k) == SubSeq(s, Len(s) - k + 1, Len(s))
BodyOf(pt) == SubSeq(pt, 5, Len(pt))
\* Part 4: the body ends with the server nonce
NonceMatches(pt, n) == Len(pt) - 4 >= Len(n) /\ LastK(pt, Len(n)) = n
(* L1: the specified decryption of a plaintext: error, or the password (body without the nonce) *)
SpecDecrypt(pt, n) ==
  IF Len(pt) < 4 \/ SubSeq(pt, 1, 4) # LE32(Len(pt) - 4) \/ ~NonceMatches(pt, n) THEN [o |-> "err", pw |-> <<>>]
  ELSE [o |-> "ok", pw |-> SubSeq(pt, 5, Len(pt) - Len(n))]
ByteSpec(c) == [fail |-> "none", site |-> "", out |-> [legacy |-> SpecDecrypt(c.pt, c.nonce), token |-> SpecDecrypt(c.pt, c.nonce)]]
Honest(c) == c.pt = LE32(Len(BPw) + Len(c.nonce)) \o BPw \o c.nonce

Cases == RtCases \cup {c \in CraftCases : CraftOK(c)} \cup ArbCases \cup ByteCases
Spec(c) == CASE c.kind = "rt" -> RtSpec(c) [] c.kind = "craft" -> CraftSpec(c) [] c.kind = "arb" -> ArbSpec(c)
             [] c.kind = "bytes" -> ByteSpec(c)

-----------------------------------------------------------------------------
(* L2: the judge                                                            *)
Apis == {"legacy", "token"}        \* legacy_password_decrypt, decrypt_user_identity_token_password
Panic(r) == {"panic:" \o r.site : x \in IF r.fail # "none" THEN {1} ELSE {}}
IsOk(o) == o \in {"ok-same", "ok-other"}

RtViol(c, r) ==
  Panic(r)
  \cup (IF r.enc = "err" THEN {"encrypt-failed"} ELSE {})
  \cup (IF r.enc = "ok" /\ \E a \in Apis : r.same[a] \in {"ok-other", "err"} THEN {"round-trip-lost-the-password"} ELSE {})
  \cup {"accepted-with-a-different-nonce:" \o r.variants[i].v
          : i \in {j \in 1..Len(r.variants) : Bind(c, r.variants[j].v) = "must-fail"
                                              /\ \E a \in Apis : IsOk(r.variants[j][a])}}

CraftViol(c, r) ==
  Panic(r)
  \cup (IF WellFormed(c) /\ c.pwcls # "invalid" /\ \E a \in Apis : r.out[a] \in {"ok-other", "err"}
        THEN {"well-formed-plaintext-not-decrypted-to-the-password"} ELSE {})
  \cup (IF c.nrel \in {"diff", "trunc", "ext", "none"} /\ c.prefix = "eq" /\ \E a \in Apis : IsOk(r.out[a])
        THEN {"accepted-with-a-different-nonce:crafted-" \o c.nrel} ELSE {})

ArbViol(c, r) == Panic(r)

\* r.out[api] = [o |-> "ok" / "err" / "panic", pw |-> the bytes of the returned password]
ByteViol(c, r) ==
  Panic(r)
  \cup (IF \E a \in Apis : r.out[a].o = "ok" /\ ~NonceMatches(c.pt, c.nonce) THEN {"accepted-with-a-different-nonce:crafted-bytes"} ELSE {})
  \cup (IF Honest(c) /\ \E a \in Apis : r.out[a].o = "err" \/ (r.out[a].o = "ok" /\ r.out[a].pw # BPw)
        THEN {"well-formed-plaintext-not-decrypted-to-the-password"} ELSE {})

PwViol(e) == CASE e.c.kind = "bytes" -> ByteViol(e.c, e.r)
               [] e.c.kind = "rt" -> RtViol(e.c, e.r)
               [] e.c.kind = "craft" -> CraftViol(e.c, e.r)
               [] e.c.kind = "arb" -> ArbViol(e.c, e.r)

\* what the harness needs besides the case: block size, algorithm URIs, the variants with their lengths
Expected(c) == [r |-> Spec(c), block |-> PlainBlock(c.bits, c.pad), uri |-> AlgUri(c.pad), otheruri |-> AlgUri(NextPad(c.pad)),
                pwbytes |-> IF c.kind = "rt" THEN PwBytes(c.pw) ELSE 0]
=============================================================================
