---------------------------- MODULE MCJsonCodec ----------------------------
(* C42: the value space (one TLC state per value) and the design check: the  *)
(* specified deserialiser applied to the specified JSON form returns an      *)
(* equal value, and null / empty are written differently wherever the type   *)
(* tells them apart.                                                         *)
EXTENDS JsonCodec
CONSTANT Lvl          \* nesting levels of Variant / DataValue / array containers above the scalar level (0..3)

GSeq == [i \in 1..16 |-> i]                                                   \* 01020304-0506-0708-090a-0b0c0d0e0f10
GMix == <<171, 205, 239, 1, 35, 69, 103, 137, 171, 205, 239, 1, 35, 69, 103, 137>>   \* abcdef01-2345-6789-abcd-ef0123456789
Guids == {G0, GSeq, GMix}
\* strings: null, empty, plain, characters that JSON must escape (quote, backslash, newline, NUL, 0x1f, DEL),
\* non-ASCII (e acute, euro sign, U+1F600 outside the BMP), a blank, "null" spelled out
Strs3 == {NullS, S(<<>>), S(<<97>>)}
Alpha == {34, 92, 10, 97, 233, 128512}
Strs == Strs3 \cup {S(<<97, 32, 98>>), S(<<34, 92, 10>>), S(<<0, 31, 127>>), S(<<233, 8364, 128512>>), S(<<110, 117, 108, 108>>), S(<<47, 60, 62, 38>>),
                   S(<<8232, 55295, 57344, 65535, 1114111>>)}                       \* line separator, around the surrogates, the last code points
     \* wide (Lvl >= 2): every string of one to three characters over quote, backslash, newline, a, e acute, U+1F600
     \cup (IF Lvl >= 2 THEN {S(<<a>>) : a \in Alpha} \cup {S(<<a, b>>) : a \in Alpha, b \in Alpha} \cup {S(<<a, b, d>>) : a \in Alpha, b \in Alpha, d \in Alpha} ELSE {})
\* byte strings: null, empty, one / two / three / four bytes (all base64 paddings), bytes that map to '+' and '/'
Bss3 == {NullS, S(<<>>), S(<<1, 2, 3>>)}
BAlpha == {0, 62, 255}
Bss == Bss3 \cup {S(<<1>>), S(<<1, 2>>), S(<<1, 2, 3, 4>>), S(<<251, 239, 255>>), S(<<0>>), S(<<255, 255>>)}
     \cup (IF Lvl >= 2 THEN {S(<<a>>) : a \in BAlpha} \cup {S(<<a, b>>) : a \in BAlpha, b \in BAlpha} \cup {S(<<a, b, d>>) : a \in BAlpha, b \in BAlpha, d \in BAlpha}
                              \cup {S(<<a, b, d, 7>>) : a \in BAlpha, b \in BAlpha, d \in BAlpha} ELSE {})
Pts(t) == CASE t = "Boolean" -> {"true", "false"}
            [] t = "SByte" -> {"-128", "-1", "0", "127"} [] t = "Byte" -> {"0", "255"}
            [] t = "Int16" -> {"-32768", "0", "32767"} [] t = "UInt16" -> {"0", "65535"}
            [] t = "Int32" -> {"-2147483648", "0", "1", "2147483647"} [] t = "UInt32" -> {"0", "4294967295"}
            [] t = "Int64" -> {"-9223372036854775808", "0", "9223372036854775807"}
            [] t = "UInt64" -> {"0", "18446744073709551615"}
            [] t \in FloatTypes -> FloatFinite \cup {"inf", "ninf", "nan"}
NodeIds == {NumId("0", "0"), NumId("0", "255"), NumId("1", "65536"), NumId("65535", "4294967295"),
            StrId("1", S(<<97>>)), StrId("0", S(<<34, 92, 233>>)), StrId("2", S(<<32>>)),
            GuidId("3", GSeq), GuidId("0", G0), GuidId("1", GMix),
            OpqId("4", S(<<1, 2>>)), OpqId("0", S(<<251, 239, 255>>))}
\* outside the quantifier (identifiers must not be empty): generated at the top level only, reported, not judged
NodeIdsOut == {StrId("1", NullS), StrId("1", S(<<>>)), OpqId("1", NullS), OpqId("1", S(<<>>))}
Uris == {NullS, S(<<>>), S(<<117, 114, 110, 58, 120>>)}                         \* null, "", "urn:x"
XNidsOver(ids) == {XNid(id, uri, srv) : id \in ids, uri \in Uris, srv \in {"0", "1", "4294967295"}}
XNids == XNidsOver({NumId("0", "5"), NumId("2", "300"), StrId("0", S(<<97>>)), StrId("1", S(<<97>>)), GuidId("0", GSeq), OpqId("2", S(<<9>>))})
Qns == {Qn(ns, nm) : ns \in {"0", "1", "65535"}, nm \in Strs3 \cup {S(<<34, 233>>)}}
Lts == {Lt(a, b) : a \in Strs3, b \in Strs3 \cup {S(<<34, 92, 8364>>)}}
Eos == {Eo(id, "none", NullS) : id \in {NullId, NumId("1", "300"), StrId("1", S(<<97>>))}}
       \cup {Eo(id, "bytes", b) : id \in {NullId, NumId("1", "300")}, b \in Bss3}
       \cup {Eo(NumId("1", "300"), "xml", b) : b \in Strs3 \cup {S(<<60, 97, 47, 62>>)}}
\* DiagnosticInfo: every subset of the six optional members in the first link; chains of one to three links
F6 == {"sym", "nsu", "lcl", "ltx", "add", "ist"}
LinkOf(fs) == DiLink(IF "sym" \in fs THEN SomeI("1") ELSE NoneI, IF "nsu" \in fs THEN SomeI("2") ELSE NoneI,
                     IF "lcl" \in fs THEN SomeI("2147483647") ELSE NoneI, IF "ltx" \in fs THEN SomeI("-1") ELSE NoneI,
                     IF "add" \in fs THEN SomeS(S(<<105, 34>>)) ELSE NoneS, IF "ist" \in fs THEN SomeC("BadDecodingError") ELSE NoneC)
Tails == {<<>>, <<DiNullLink>>, <<LinkOf({"sym", "add"}), LinkOf({"ist"})>>}
Dis == {<<LinkOf(fs)>> \o t : fs \in SUBSET F6, t \in Tails}
       \cup {<<DiLink(NoneI, NoneI, NoneI, NoneI, SomeS(S(<<>>)), NoneC)>>}
\* additional_info = Some(null string): see the deviation `optnull'
DisSomeNull == {<<DiLink(NoneI, NoneI, NoneI, NoneI, SomeS(NullS), NoneC)>>,
                <<LinkOf({"sym"}), DiLink(NoneI, SomeI("2"), NoneI, NoneI, SomeS(NullS), NoneC)>>}
\* DataValue: every combination of the six optional members (2^6), over a few payloads
DvOver(vs, scs, dts, ps) ==
  {Dv(hv, IF hv THEN v ELSE VEmpty, hs, IF hs THEN sc ELSE "Good", hst, IF hst THEN a ELSE "epoch", hsp, IF hsp THEN p ELSE "0",
      hvt, IF hvt THEN b ELSE "epoch", hvp, IF hvp THEN p ELSE "0")
   : hv \in BOOLEAN, v \in vs, hs \in BOOLEAN, sc \in scs, hst \in BOOLEAN, a \in dts, hsp \in BOOLEAN, hvt \in BOOLEAN, b \in dts, hvp \in BOOLEAN, p \in ps}
DvSimple(v) == Dv(TRUE, v, FALSE, "Good", FALSE, "epoch", FALSE, "0", FALSE, "epoch", FALSE, "0")
DvFull(v) == Dv(TRUE, v, TRUE, "BadDecodingError", TRUE, "ms", TRUE, "65535", TRUE, "sec", TRUE, "1")

Scal0 == {VEmpty} \cup UNION {{VNum(t, p) : p \in Pts(t)} : t \in NumTypes}
         \cup {VStr(t, s) : t \in StrTypes, s \in Strs} \cup {VStr("ByteString", s) : s \in Bss}
         \cup {VDt(n) : n \in DtNames} \cup {VGuid(g) : g \in Guids} \cup {VSc(c) : c \in ScNames}
         \cup {VNode(i) : i \in NodeIds} \cup {VXNode(x) : x \in XNids} \cup {VQn(q) : q \in Qns} \cup {VLt(l) : l \in Lts}
         \cup {VEo(e) : e \in Eos} \cup {VDi(c) : c \in Dis \cup DisSomeNull}
\* two elements per element type for the arrays
ElemA(t) == CASE t = "Boolean" -> VNum(t, "true") [] t \in {"SByte", "Int16", "Int32"} -> VNum(t, "-1") [] t \in {"Byte", "UInt16", "UInt32"} -> VNum(t, "7")
              [] t = "Int64" -> VNum(t, "-9223372036854775808") [] t = "UInt64" -> VNum(t, "18446744073709551615")
              [] t \in FloatTypes -> VNum(t, "onehalf")
              [] t = "Guid" -> VGuid(GSeq) [] t = "StatusCode" -> VSc("BadDecodingError") [] t = "DateTime" -> VDt("ms")
              [] t \in StrTypes -> VStr(t, S(<<97, 34>>)) [] t = "ByteString" -> VStr(t, S(<<1, 2>>))
              [] t = "NodeId" -> VNode(NumId("1", "300")) [] t = "ExpandedNodeId" -> VXNode(XNid(NumId("0", "5"), NullS, "1"))
              [] t = "QualifiedName" -> VQn(Qn("1", S(<<97>>))) [] t = "LocalizedText" -> VLt(Lt(S(<<101>>), S(<<97>>)))
              [] t = "ExtensionObject" -> VEo(Eo(NumId("1", "300"), "bytes", S(<<1, 2, 3>>)))
              [] t = "DataValue" -> VDv(DvFull(VNum("Byte", "7")))
              [] t = "Variant" -> VVar(VNum("Byte", "7")) [] t = "DiagnosticInfo" -> VDi(<<LinkOf({"sym", "add"}), DiNullLink>>)
ElemB(t) == CASE t = "Boolean" -> VNum(t, "false") [] t \in IntTypes \cup Int64Types -> VNum(t, "0")
              [] t \in FloatTypes -> VNum(t, "inf")
              [] t = "Guid" -> VGuid(G0) [] t = "StatusCode" -> VSc("Good") [] t = "DateTime" -> VDt("epoch")
              [] t \in StrTypes \cup {"ByteString"} -> VStr(t, NullS)
              [] t = "NodeId" -> VNode(StrId("2", S(<<97>>))) [] t = "ExpandedNodeId" -> VXNode(XNid(StrId("1", S(<<97>>)), NullS, "0"))
              [] t = "QualifiedName" -> VQn(Qn("0", NullS)) [] t = "LocalizedText" -> VLt(Lt(NullS, S(<<>>)))
              [] t = "ExtensionObject" -> VEo(Eo(NullId, "none", NullS))
              [] t = "DataValue" -> VDv(DvNull)
              [] t = "Variant" -> VVar(VEmpty)
              [] t = "DiagnosticInfo" -> VDi(<<DiNullLink>>)
ElemC(t) == IF t \in StrTypes \cup {"ByteString"} THEN VStr(t, S(<<>>)) ELSE ElemB(t)
DimsFor(n) == CASE n = 0 -> {NoDims, Dims(<<0>>), Dims(<<0, 2>>)}
                [] n = 1 -> {NoDims, Dims(<<1>>), Dims(<<1, 1>>)}
                [] n = 2 -> {NoDims, Dims(<<2>>), Dims(<<1, 2>>), Dims(<<2, 1>>)}
                [] n = 3 -> {NoDims, Dims(<<3>>)}
                [] n = 4 -> {NoDims, Dims(<<4>>), Dims(<<2, 2>>), Dims(<<2, 1, 2>>)}
ArrsOf(t, a, b, c) == {VArr(t, items, dm) : items \in {<<>>, <<a>>, <<b>>, <<a, b>>, <<b, c, a>>, <<b, a, a, b>>}, dm \in UNION {DimsFor(n) : n \in 0..4}}
Arr0 == UNION {{x \in ArrsOf(t, ElemA(t), ElemB(t), ElemC(t)) : x.dims \in DimsFor(Len(x.items))} : t \in ScalarTypes}
\* a Variant inside an array of Variants may itself hold an array
ArrNest == {VArr("Variant", <<VVar(VArr("Int32", <<VNum("Int32", "1")>>, NoDims)), VVar(VEmpty)>>, NoDims)}

\* representatives that are carried into the next nesting level
Rep0 == {VEmpty, VNum("Byte", "7"), VNum("Double", "nan"), VStr("String", NullS), VStr("String", S(<<>>)), VStr("ByteString", NullS),
         VLt(Lt(S(<<>>), NullS)), VDt("ms"), VNode(StrId("1", S(<<97>>))), VXNode(XNid(NumId("0", "5"), S(<<117>>), "1")),
         VEo(Eo(NumId("1", "300"), "bytes", S(<<1, 2, 3>>))), VDi(<<LinkOf({"sym", "add"}), DiNullLink>>),
         VArr("Int32", <<VNum("Int32", "1"), VNum("Int32", "0")>>, Dims(<<1, 2>>)),
         VArr("String", <<>>, Dims(<<0>>)), VArr("Byte", <<>>, NoDims)}
Up(vs) == {VVar(x) : x \in vs} \cup {VDv(DvSimple(x)) : x \in vs}
          \cup UNION {{VArr("Variant", <<VVar(x)>>, NoDims), VArr("Variant", <<VVar(x), VVar(VEmpty)>>, Dims(<<2, 1>>)),
                       VArr("DataValue", <<VDv(DvFull(x)), VDv(DvNull)>>, NoDims)} : x \in vs}
RECURSIVE RepL(_)
RepL(k) == IF k = 0 THEN Rep0 ELSE Up(RepL(k - 1))
DvAll == DvOver({VNum("Byte", "7")}, {"BadLimitHigh"}, {"ms"}, {"65535"})
Level(k) == IF k = 0 THEN Scal0 \cup Arr0 \cup ArrNest
            ELSE Up(RepL(k - 1))
                 \* wide (Lvl >= 2): every scalar and every array once more inside a Variant and inside a DataValue
                 \cup (IF k = 1 /\ Lvl >= 2 THEN {VVar(x) : x \in Scal0 \cup Arr0} \cup {VDv(DvSimple(x)) : x \in Scal0 \cup Arr0} ELSE {})
Variants == UNION {Level(k) : k \in 0..Lvl} \cup {VDv(d) : d \in DvAll}

VarReps == Rep0 \cup (IF Lvl >= 1 THEN {VVar(VVar(VNum("Byte", "7"))), VVar(VDv(DvSimple(VVar(VEmpty))))} ELSE {})
DataValues == DvAll \cup {DvSimple(x) : x \in VarReps} \cup {DvFull(x) : x \in VarReps}
              \cup DvOver({VStr("String", NullS)}, ScNames, DtNames, {"0", "1"})
              \cup (IF Lvl >= 2 THEN DvOver({VEmpty, VArr("String", <<VStr("String", NullS), VStr("String", S(<<>>))>>, Dims(<<1, 2>>)),
                                              VVar(VDv(DvFull(VNum("Double", "nan"))))}, {"Good", "UncertainInfo"}, {"epoch", "end"}, {"0", "65535"}) ELSE {})

Cases == {[ty |-> "Variant", w |-> x] : x \in Variants}
         \cup {[ty |-> "DataValue", w |-> VDv(d)] : d \in DataValues}
         \cup {[ty |-> "String", w |-> VStr("String", s)] : s \in Strs} \cup {[ty |-> "ByteString", w |-> VStr("ByteString", s)] : s \in Bss}
         \cup {[ty |-> "Guid", w |-> VGuid(g)] : g \in Guids}
         \cup {[ty |-> "DateTime", w |-> VDt(n)] : n \in DtNames \cup {"sub"}}
         \cup {[ty |-> "StatusCode", w |-> VSc(s)] : s \in ScNames}
         \cup {[ty |-> "NodeId", w |-> VNode(i)] : i \in NodeIds \cup NodeIdsOut}
         \cup {[ty |-> "ExpandedNodeId", w |-> VXNode(x)] : x \in XNids \cup XNidsOver({StrId("1", S(<<>>))})}
         \cup {[ty |-> "LocalizedText", w |-> VLt(l)] : l \in Lts}
         \cup {[ty |-> "QualifiedName", w |-> VQn(q)] : q \in Qns}
         \cup {[ty |-> "ExtensionObject", w |-> VEo(e)] : e \in Eos}
         \cup {[ty |-> "DiagnosticInfo", w |-> VDi(c)] : c \in Dis \cup DisSomeNull}

VARIABLE c
Init == c \in Cases
Next == UNCHANGED c
Spec == Init /\ [][Next]_c

\* The reversible design.  One class of values is beyond it: the Part 6 form of an ExpandedNodeId writes the namespace uri IN PLACE OF
\* the namespace index, so a value that carries both loses the index (XUriIdxOK below shows it).
Canonical(x) == ~HasT("xuri-idx", x.w)
DesignOK == InScope(c) /\ Canonical(c) => SpecViol(c, Design) = {} /\ NullEmptyDistinct(c, Design)
\* the departures of the tree, one at a time: each must exhibit a counterexample (run with expect_violation)
XUriIdxOK == InScope(c) => SpecViol(c, Design) = {}
DevArraysOK == InScope(c) /\ Canonical(c) => SpecViol(c, [Design EXCEPT !.arrays = "panic"]) = {}
DevXUriOK == InScope(c) /\ Canonical(c) => SpecViol(c, [Design EXCEPT !.xuri = "dropped"]) = {}
DevXmlNullOK == InScope(c) /\ Canonical(c) => SpecViol(c, [Design EXCEPT !.xmlnull = "reject"]) = {}
DevOptNullOK == InScope(c) /\ Canonical(c) => SpecViol(c, [Design EXCEPT !.optnull = "none"]) = {}
\* the tree as it is: the deviations still present are set by the check (used for the expected JSON form: drift only)
CONSTANT TreeDv
=============================================================================
