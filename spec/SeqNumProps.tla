----------------------------- MODULE SeqNumProps -----------------------------
(***************************************************************************)
(* L2 monitor of property C12 "Sequence numbers increase by one per chunk   *)
(* and replays are rejected" (DESIGN.md Appendix A), over OBSERVATION       *)
(* RECORDS only.                                                            *)
(*                                                                          *)
(* Records:  Config(chan, seq0)                                             *)
(*           Send(side, emits = <<[req, seq, fin, chan], ...>>): the headers *)
(*             of the chunks the sender produced for ONE message, parsed    *)
(*             back from the bytes it emitted;                              *)
(*           Present(rcv, chunks = the chunks the receiver was given for    *)
(*             one message, in the order given, acc).                       *)
(* Ghost: hi[side] last sequence number emitted, reqs[side] request ids     *)
(* used, accHi[rcv] highest accepted sequence number, accepted[rcv].        *)
(*                                                                          *)
(* Send:    every chunk has seq = hi[side] + 1 (exactly one more per chunk, *)
(*          across messages); the first chunk's request id was not used by  *)
(*          that sender before; the other chunks share it.                  *)
(* Present: acc => consecutive /\ first seq > every accepted number /\ one  *)
(*          request id /\ every chunk carries the channel's id;             *)
(*          acc of a message accepted before is a violation (replay).       *)
(* Gaps between messages are allowed on the receiving side.                 *)
(***************************************************************************)
EXTENDS Integers, Sequences, FiniteSets, SequencesExt, TLC

Sides == {"client", "server"}
Rcvs == {"server", "client", "fn"}

SnInit == [chan |-> 0,
           hi |-> [s \in Sides |-> 0],
           reqs |-> [s \in Sides |-> {}],
           accHi |-> [r \in Rcvs |-> 0],
           accepted |-> [r \in Rcvs |-> {}]]

\* fold over the chunk headers of one message
RECURSIVE EmitFold(_, _, _, _, _)
EmitFold(hi, first, em, i, viol) ==
  IF i > Len(em) THEN [hi |-> hi, viol |-> viol]
  ELSE LET c == em[i]
           v == (IF c.seq # hi + 1 THEN {"emit:sequence-number-is-not-the-previous-plus-one"} ELSE {})
                \cup (IF i > 1 /\ c.req # first THEN {"emit:chunks-of-one-message-differ-in-request-id"} ELSE {})
       IN EmitFold(c.seq, first, em, i + 1, viol \cup v)

Consecutive(ch) == \A i \in 2..Len(ch) : ch[i].seq = ch[i - 1].seq + 1
OneReq(ch) == \A i \in 1..Len(ch) : ch[i].req = ch[1].req
Key(ch) == [i \in 1..Len(ch) |-> <<ch[i].req, ch[i].seq>>]
MaxSeq(ch) == CHOOSE x \in {ch[i].seq : i \in 1..Len(ch)} : \A i \in 1..Len(ch) : ch[i].seq <= x

SnStep(g, e) ==
  CASE e.ev = "Config" ->
         [g |-> [SnInit EXCEPT !.chan = e.chan, !.hi = [s \in Sides |-> e.seq0], !.accHi = [r \in Rcvs |-> e.seq0]], viol |-> {}]
    [] e.ev = "Send" /\ e.side \in Sides /\ e.fail = "none" /\ e.ok /\ e.emits # <<>> ->
         LET s == e.side
             f == EmitFold(g.hi[s], e.emits[1].req, e.emits, 1, {})
             v0 == IF e.emits[1].req \in g.reqs[s] THEN {"emit:request-id-used-before"} ELSE {}
         IN [g |-> [g EXCEPT !.hi[s] = f.hi, !.reqs[s] = @ \cup {e.emits[1].req}], viol |-> f.viol \cup v0]
    [] e.ev = "Present" /\ e.fail = "none" /\ e.chunks # <<>> ->
         LET r == e.rcv
             ch == e.chunks
             v == IF ~e.acc THEN {}
                  ELSE (IF ~Consecutive(ch) THEN {"accept:chunks-not-consecutive"} ELSE {})
                       \cup (IF ch[1].seq <= g.accHi[r] THEN {"accept:first-sequence-number-not-above-every-accepted-one"} ELSE {})
                       \cup (IF ~OneReq(ch) THEN {"accept:chunks-differ-in-request-id"} ELSE {})
                       \cup (IF \E i \in 1..Len(ch) : ch[i].chan # g.chan THEN {"accept:foreign-channel-id"} ELSE {})
                       \cup (IF Key(ch) \in g.accepted[r] THEN {"accept:replayed-message"} ELSE {})
             hi2 == IF MaxSeq(ch) > g.accHi[r] THEN MaxSeq(ch) ELSE g.accHi[r]
         IN [g |-> IF e.acc THEN [g EXCEPT !.accHi[r] = hi2, !.accepted[r] = @ \cup {Key(ch)}] ELSE g, viol |-> v]
    [] OTHER -> [g |-> g, viol |-> {}]
=============================================================================
