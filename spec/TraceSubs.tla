------------------------------ MODULE TraceSubs ------------------------------
(* Judge: feeds the observation records written by the harness (one ndjson   *)
(* record per call made on the real code) through the L2 monitors of         *)
(* SubsProps.tla, one TLC state per record.  Cases are separated by i = 1.   *)
(* The verdicts are written to IOEnv.VERDICT when the log is exhausted.      *)
EXTENDS Integers, Sequences, FiniteSets, SequencesExt, TLC, Json, IOUtils

CONSTANTS SubIds, ItemIds, ReqTimeout,
          Mons      \* the monitors to run, e.g. {"C22"}

MP == INSTANCE SubsProps

Obs == ndJsonDeserialize(IOEnv.OBS)

VARIABLES l, mon, out, dead

Fresh == [m21 |-> MP!M21Init, m22 |-> MP!M22Init, m24 |-> MP!M24Init, m26 |-> MP!M26Init, m27 |-> MP!M27Init, m40 |-> MP!M40Init]

TInit == l = 1 /\ mon = Fresh /\ out = <<>> /\ dead = {}

Verdicts(e, prop, vs, dd) ==
  IF prop \in dd THEN <<>>
  ELSE LET s == SetToSeq(vs) IN [j \in 1..Len(s) |-> [case |-> e.case, i |-> e.i, prop |-> prop, clause |-> s[j]]]

TNext ==
  \/ /\ l <= Len(Obs)
     /\ LET e == Obs[l]
            g == IF e.i = 1 THEN Fresh ELSE mon
            dd == IF e.i = 1 THEN {} ELSE dead
            r21 == IF "C21" \in Mons THEN MP!Mon21Step(g.m21, e) ELSE [g |-> g.m21, viol |-> {}]
            r22 == IF "C22" \in Mons THEN MP!Mon22Step(g.m22, e) ELSE [g |-> g.m22, viol |-> {}]
            r24 == IF "C24" \in Mons THEN MP!Mon24Step(g.m24, e) ELSE [g |-> g.m24, viol |-> {}]
            r26 == IF "C26" \in Mons THEN MP!Mon26Step(g.m26, e) ELSE [g |-> g.m26, viol |-> {}]
            r27 == IF "C27" \in Mons THEN MP!Mon27Step(g.m27, e) ELSE [g |-> g.m27, viol |-> {}]
            r40 == IF "C40" \in Mons THEN MP!Mon40Step(g.m40, e) ELSE [g |-> g.m40, viol |-> {}]
        IN /\ mon' = [m21 |-> r21.g, m22 |-> r22.g, m24 |-> r24.g, m26 |-> r26.g, m27 |-> r27.g, m40 |-> r40.g]
           /\ out' = out \o Verdicts(e, "C21", r21.viol, dd) \o Verdicts(e, "C22", r22.viol, dd) \o Verdicts(e, "C24", r24.viol, dd)
                         \o Verdicts(e, "C26", r26.viol, dd) \o Verdicts(e, "C27", r27.viol, dd)
                         \o Verdicts(e, "C40", r40.viol, dd)
           \* after the first violation of a property in a case the rest of the case is not judged for it
           /\ dead' = dd \cup (IF r21.viol # {} THEN {"C21"} ELSE {}) \cup (IF r22.viol # {} THEN {"C22"} ELSE {}) \cup (IF r24.viol # {} THEN {"C24"} ELSE {})
                         \cup (IF r26.viol # {} THEN {"C26"} ELSE {}) \cup (IF r27.viol # {} THEN {"C27"} ELSE {})
                         \cup (IF r40.viol # {} THEN {"C40"} ELSE {})
     /\ l' = l + 1
  \/ /\ l = Len(Obs) + 1
     /\ ndJsonSerialize(IOEnv.VERDICT, out)
     /\ l' = l + 1
     /\ UNCHANGED <<mon, out, dead>>

TSpec == TInit /\ [][TNext]_<<l, mon, out, dead>>
=============================================================================
