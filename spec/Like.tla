-------------------------------- MODULE Like --------------------------------
(***************************************************************************)
(* C39 (LIKE half)  OPC UA Part 4 LIKE patterns over a tiny alphabet.       *)
(*                                                                          *)
(* A pattern is a sequence of TOKENS: a literal character, "%" (any run of  *)
(* characters, also none), "_" (exactly one character), a list "[ab]" /     *)
(* "[^a]" (exactly one character in / not in the list) and the escapes      *)
(* "\%" "\_" (the character itself).  A string is a sequence of characters. *)
(*                                                                          *)
(* L2 (the property): the LANGUAGE of a pattern, defined compositionally -  *)
(* the strings of a pattern are the concatenations of strings of its tokens.*)
(* L1 (the specified function): a recursive backtracking matcher.           *)
(* Dev: the pinned tree translates "_" to the regular expression operator   *)
(* "?" (the preceding item becomes optional; a leading "?" applies to the   *)
(* start anchor, which un-anchors the match); DevMatch models exactly that. *)
(***************************************************************************)
EXTENDS Integers, Sequences, FiniteSets, TLC

\* bounds (substituted by the check)
LAlphabet == {"a", "b"}
LTokens == {"a", "b", "%", "_"}
LMaxP == 4
LMaxS == 4

Seqs(S, n) == UNION {[1..k -> S] : k \in 0..n}
AllStrs == Seqs(LAlphabet, LMaxS)
Patterns == Seqs(LTokens, LMaxP)

RECURSIVE Str(_)
Str(s) == IF s = <<>> THEN "" ELSE Head(s) \o Str(Tail(s))

\* one character against a token that stands for exactly one character
TokChar(t, ch) ==
  CASE t = "_" -> TRUE
    [] t = "[ab]" -> ch \in {"a", "b"}
    [] t = "[^a]" -> ch # "a"
    [] t = "\\%" -> ch = "%"
    [] t = "\\_" -> ch = "_"
    [] OTHER -> ch = t

-----------------------------------------------------------------------------
(* L2: % matches any run of characters, every other token exactly one character *)
TokLang(t) == IF t = "%" THEN AllStrs ELSE {<<ch>> : ch \in {x \in LAlphabet : TokChar(t, x)}}
RECURSIVE Lang(_)
Lang(p) ==
  IF p = <<>> THEN {<<>>}
  ELSE LET rest == Lang(Tail(p)) IN {s \in {x \o y : x \in TokLang(Head(p)), y \in rest} : Len(s) <= LMaxS}

-----------------------------------------------------------------------------
(* L1: the specified matcher *)
RECURSIVE Match(_, _)
Match(p, s) ==
  IF p = <<>> THEN s = <<>>
  ELSE IF Head(p) = "%" THEN Match(Tail(p), s) \/ (s # <<>> /\ Match(p, Tail(s)))
  ELSE s # <<>> /\ TokChar(Head(p), Head(s)) /\ Match(Tail(p), Tail(s))

-----------------------------------------------------------------------------
(* Dev: "_" written as the regular expression operator "?" *)
HasUnderscore(p) == \E i \in DOMAIN p : p[i] = "_"
RECURSIVE DevItems(_, _, _)
\* left to right: un = a leading "_" made the start anchor optional; items = <<[t, opt]>>
DevItems(p, un, items) ==
  IF p = <<>> THEN [un |-> un, items |-> items]
  ELSE IF Head(p) = "_" THEN
         (IF items = <<>> THEN DevItems(Tail(p), TRUE, items)
          ELSE DevItems(Tail(p), un, [items EXCEPT ![Len(items)].opt = TRUE]))
  ELSE DevItems(Tail(p), un, Append(items, [t |-> Head(p), opt |-> FALSE]))
RECURSIVE DevMatchItems(_, _)
DevMatchItems(items, s) ==
  IF items = <<>> THEN s = <<>>
  ELSE LET it == Head(items) IN
       \/ it.opt /\ DevMatchItems(Tail(items), s)
       \/ IF it.t = "%" THEN DevMatchItems(Tail(items), s) \/ (s # <<>> /\ DevMatchItems(items, Tail(s)))
          ELSE s # <<>> /\ TokChar(it.t, Head(s)) /\ DevMatchItems(Tail(items), Tail(s))
DevMatch(p, s) ==
  LET d == DevItems(p, FALSE, <<>>) IN
  IF d.un THEN \E k \in 0..Len(s) : DevMatchItems(d.items, SubSeq(s, k + 1, Len(s)))
  ELSE DevMatchItems(d.items, s)

-----------------------------------------------------------------------------
(* verdict on the set of strings (texts) that the real matcher accepted for pattern p *)
LangStr(p) == {Str(s) : s \in Lang(p)}
SpecStr(p) == {Str(s) : s \in {x \in AllStrs : Match(p, x)}}
DevStr(p) == {Str(s) : s \in {x \in AllStrs : DevMatch(p, x)}}
LikeSetViol(p, real) ==
  IF real = LangStr(p) THEN {}
  ELSE IF HasUnderscore(p) /\ real = DevStr(p) THEN {"like-underscore-acts-as-regex-optional-operator"}
  ELSE {"like-result-differs-from-pattern-language"}
=============================================================================
