---------------------------- MODULE AddressSpace ----------------------------
(***************************************************************************)
(* L1 specification of the address space's node map and reference index     *)
(*   server/address_space/{address_space,references,relative_path}.rs       *)
(* as the code keeps them: `fwd` (references_map: source -> Vec of           *)
(* (type, target), insertion order, no duplicates) and `by`                  *)
(* (referenced_by_map: target -> set of sources).  One action per public     *)
(* call; every action produces the observation record the harness produces   *)
(* (the answers of find_references / find_inverse_references / has_reference *)
(* for the whole small universe after the call).                             *)
(***************************************************************************)
EXTENDS Integers, Sequences, FiniteSets, SequencesExt, TLC

CONSTANTS
  Nodes,            \* small naturals; node n has browse name Name(n)
  Types,            \* subset of {"HC", "HP", "OR"} = HasComponent, HasProperty, Organizes
  DevDeleteReverse, \* delete_reference(a, t, b) also drops every reference b -> a
  DevNoVisited      \* recursive delete has no visited set (a cycle of aggregates never terminates)

\* reference type hierarchy of the standard node set (HasSubtype edges)
Parent(t) == CASE t = "HC" -> "AG" [] t = "HP" -> "AG" [] t = "AG" -> "CH" [] t = "CH" -> "HI" [] t = "OR" -> "HI" [] OTHER -> "NONE"
RECURSIVE IsSub(_, _)
IsSub(t, f) == t = f \/ (Parent(t) # "NONE" /\ IsSub(Parent(t), f))
\* a filter is ANY or <<type, includeSubtypes>>
Matches(f, t) == f[1] = "ANY" \/ t = f[1] \/ (f[2] /\ IsSub(t, f[1]))
ANY == <<"ANY", TRUE>>
Name(n) == IF n % 2 = 1 THEN "a" ELSE "b"

VARIABLES exist, fwd, by, evt
vars == <<exist, fwd, by, evt>>

Pair(t, b) == <<t, b>>
Has(f, a, t, b) == \E j \in 1..Len(f[a]) : f[a][j] = Pair(t, b)
RefsTo(f, a, b) == {j \in 1..Len(f[a]) : f[a][j][2] = b}

\* ---- queries (what the code answers) -------------------------------------
TRank(t) == CASE t = "HC" -> 1 [] t = "HP" -> 2 [] t = "OR" -> 3 [] OTHER -> 9
PairLess(x, y) == TRank(x[1]) < TRank(y[1]) \/ (x[1] = y[1] /\ x[2] < y[2])
SortPairs(S) == SetToSortSeq(S, PairLess)
QFwd(f, n, flt) == SortPairs({f[n][j] : j \in {k \in 1..Len(f[n]) : Matches(flt, f[n][k][1])}})
QInv(f, b0, n, flt) ==
  SortPairs(UNION {{Pair(f[a][j][1], a) : j \in {k \in RefsTo(f, a, n) : Matches(flt, f[a][k][1])}} : a \in b0[n]})
AG == <<"AG", TRUE>>
Proj(ex, f, b0) ==
  [nodes |-> SetToSortSeq(ex, <),
   f  |-> [n \in Nodes |-> QFwd(f, n, ANY)],
   i  |-> [n \in Nodes |-> QInv(f, b0, n, ANY)],
   fa |-> [n \in Nodes |-> QFwd(f, n, AG)],
   ia |-> [n \in Nodes |-> QInv(f, b0, n, AG)],
   fc |-> [n \in Nodes |-> QFwd(f, n, <<"HC", FALSE>>)],
   has |-> SetToSortSeq({<<a, t, b>> \in Nodes \X Types \X Nodes : Has(f, a, t, b)},
                        LAMBDA x, y : x[1] < y[1] \/ (x[1] = y[1] /\ PairLess(<<x[2], x[3]>>, <<y[2], y[3]>>)))]
P == Proj(exist', fwd', by')

Init ==
  /\ exist = Nodes
  /\ fwd = [n \in Nodes |-> <<>>]
  /\ by = [n \in Nodes |-> {}]
  /\ evt = [ev |-> "Init"]

\* References::insert_reference
Ins(a, t, b) ==
  /\ a # b
  /\ fwd' = IF Has(fwd, a, t, b) THEN fwd ELSE [fwd EXCEPT ![a] = Append(@, Pair(t, b))]
  /\ by' = [by EXCEPT ![b] = @ \cup {a}]
  /\ UNCHANGED exist
  /\ evt' = [ev |-> "Ins", a |-> a, t |-> t, b |-> b, fail |-> "none", found |-> FALSE, st |-> P]

Without(q, x) == SelectSeq(q, LAMBDA e : e # x)

\* References::delete_reference
Del(a, t, b) ==
  LET found == Has(fwd, a, t, b)
      fa == Without(fwd[a], Pair(t, b))
      gone == found /\ ~(\E j \in 1..Len(fa) : fa[j][2] = b)      \* a no longer references b at all
      f1 == [fwd EXCEPT ![a] = fa]
      \* the pinned tree also removes b's references to a (and leaves `by[a]` alone)
      f2 == IF gone /\ DevDeleteReverse THEN [f1 EXCEPT ![b] = SelectSeq(@, LAMBDA e : e[2] # a)] ELSE f1
  IN /\ fwd' = f2
     /\ by' = IF gone THEN [by EXCEPT ![b] = @ \ {a}] ELSE by
     /\ UNCHANGED exist
     /\ evt' = [ev |-> "Del", a |-> a, t |-> t, b |-> b, fail |-> "none", found |-> found, st |-> P]

\* References::delete_node_references
DropRefs(f, b0, n) ==
  [f |-> [x \in Nodes |-> IF x = n THEN <<>> ELSE SelectSeq(f[x], LAMBDA e : e[2] # n)],
   b |-> [x \in Nodes |-> IF x = n THEN {} ELSE b0[x] \ {n}]]

\* AddressSpace::delete: children over Aggregates first, then the node and (optionally) its references.
\* w = [ex, f, b, seen]
RECURSIVE DelRec(_, _, _)
DelRec(w, n, tr) ==
  LET kids == [j \in 1..Len(QFwd(w.f, n, AG)) |-> QFwd(w.f, n, AG)[j][2]]
      w0 == [w EXCEPT !.seen = @ \cup {n}]
      RECURSIVE Kids(_, _)
      Kids(ww, j) == IF j > Len(kids) THEN ww
                     ELSE IF kids[j] \in ww.seen THEN Kids(ww, j + 1)
                     ELSE Kids(DelRec(ww, kids[j], tr), j + 1)
      w1 == Kids(w0, 1)
      d  == DropRefs(w1.f, w1.b, n)
  IN [ex |-> w1.ex \ {n}, f |-> IF tr THEN d.f ELSE w1.f, b |-> IF tr THEN d.b ELSE w1.b, seen |-> w1.seen]

\* is a cycle of aggregates reachable from n ?
RECURSIVE Reach(_, _, _)
Reach(f, S, k) == IF k = 0 THEN S
                  ELSE Reach(f, S \cup UNION {{QFwd(f, x, AG)[j][2] : j \in 1..Len(QFwd(f, x, AG))} : x \in S}, k - 1)
Cyclic(f, n) == \E x \in Reach(f, {n}, Cardinality(Nodes)) :
                  x \in Reach(f, {QFwd(f, x, AG)[j][2] : j \in 1..Len(QFwd(f, x, AG))}, Cardinality(Nodes))

DelNode(n, tr) ==
  IF DevNoVisited /\ Cyclic(fwd, n)
  THEN /\ UNCHANGED <<exist, fwd, by>>
       /\ evt' = [ev |-> "DelNode", a |-> n, tr |-> tr, fail |-> "abort", found |-> FALSE, st |-> P]
  ELSE LET w == DelRec([ex |-> exist, f |-> fwd, b |-> by, seen |-> {}], n, tr)
       IN /\ exist' = w.ex /\ fwd' = w.f /\ by' = w.b
          /\ evt' = [ev |-> "DelNode", a |-> n, tr |-> tr, fail |-> "none", found |-> n \in exist, st |-> P]

\* find_nodes_relative_path: path = sequence of [t, inv, sub, name]; t = "NULL" means any reference type
Step(S, el) ==
  UNION {LET flt == IF el.t = "NULL" THEN ANY ELSE <<el.t, el.sub>>
             q == IF el.inv THEN QInv(fwd, by, n, flt) ELSE QFwd(fwd, n, flt)
         IN {q[j][2] : j \in {k \in 1..Len(q) : q[k][2] \in exist /\ Name(q[k][2]) = el.name}}
         : n \in S}
RECURSIVE Walk(_, _)
Walk(S, path) == IF path = <<>> \/ S = {} THEN S ELSE Walk(Step(S, Head(path)), Tail(path))
Translate(n, path) ==
  LET res == IF n \notin exist THEN {} ELSE Walk({n}, path)
  IN /\ UNCHANGED <<exist, fwd, by>>
     /\ evt' = [ev |-> "Translate", a |-> n, path |-> path, fail |-> "none", found |-> n \in exist,
                res |-> SetToSortSeq(res, <), st |-> P]
=============================================================================
