-------------------------- MODULE MCClientTransport --------------------------
(* Model checking configuration: ClientTransport.tla under its driver with the *)
(* L2 monitor of ClientTransportProps.tla attached as ghost state.             *)
EXTENDS ClientTransportDriver

VARIABLES mon, viol

MP == INSTANCE ClientTransportProps

MInit == DInit /\ mon = MP!M35Init /\ viol = {}

MNext ==
  /\ DNext
  /\ LET r == MP!Mon35Step(mon, evt') IN mon' = r.g /\ viol' = r.viol

MSpec == MInit /\ [][MNext]_<<vars, depth, mon, viol>>

C35 == viol = {}

\* the statement on the ghost completions of the specification itself:
\* never more than one result per request, exactly one once the transport has closed
GhostOnce == \A r \in DOMAIN comp : subm[r].cb => /\ Len(comp[r]) <= 1
                                                  /\ (closed # "none" => Len(comp[r]) = 1)
GhostOwn == \A r \in DOMAIN comp : \A j \in 1..Len(comp[r]) : comp[r][j].k = "resp" => comp[r][j].h = Handle(r)

MView == <<subm, blocked, queue, pending, idOf, nextId, lastRecv, nextSeq, closed, comp, depth, mon, viol>>
=============================================================================
