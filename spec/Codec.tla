-------------------------------- MODULE Codec --------------------------------
(***************************************************************************)
(* C01 / C02 / C03  OPC UA binary encoding of the recursive built-in       *)
(* containers (Part 6, 5.2.2) over tiny leaf domains.                      *)
(*                                                                         *)
(*   Enc(ty, v)     expected BYTE LAYOUT, a sequence of naturals 0..255     *)
(*                  (masks, little-endian length words, element order)     *)
(*   ByteLen(ty, v) the length, defined on its own (not as Len(Enc))        *)
(*   Norm(ty, v)    the documented normalisations of a round trip           *)
(*   Dec(ty, B, o)  the decoder as a state-passing machine: state           *)
(*                  [p, ok, d, hi, live, pk]; the depth d is incremented    *)
(*                  exactly where a depth lock must be taken (Lock), every  *)
(*                  length word is checked with LenOK BEFORE Alloc.         *)
(*                                                                         *)
(* Leaf values are carried as their little-endian byte images (`raw'):      *)
(* leaf-value fidelity (float bits, UTF-8, ticks) is NOT specified here.    *)
(* Every field name has one type everywhere, so that values read back from  *)
(* JSON can be compared with `=' by TLC.                                     *)
(***************************************************************************)
EXTENDS Integers, Sequences, FiniteSets, TLC

Max(a, b) == IF a >= b THEN a ELSE b

-----------------------------------------------------------------------------
(* bytes                                                                    *)
LE16(n) == <<n % 256, (n \div 256) % 256>>
LE32(n) == IF n >= 0
           THEN <<n % 256, (n \div 256) % 256, (n \div 65536) % 256, (n \div 16777216) % 256>>
           ELSE LET m == -(n + 1)
                IN <<255 - (m % 256), 255 - ((m \div 256) % 256), 255 - ((m \div 65536) % 256), 255 - ((m \div 16777216) % 256)>>
FromLE16(b) == b[1] + 256 * b[2]
FromLE32(b) == IF b[4] < 128 THEN b[1] + 256 * b[2] + 65536 * b[3] + 16777216 * b[4]
               ELSE -((255 - b[1]) + 256 * (255 - b[2]) + 65536 * (255 - b[3]) + 16777216 * (255 - b[4])) - 1
I32Max == 2147483647

RECURSIVE Cat(_)
Cat(ss) == IF ss = <<>> THEN <<>> ELSE Head(ss) \o Cat(Tail(ss))
RECURSIVE Sum(_)
Sum(ns) == IF ns = <<>> THEN 0 ELSE Head(ns) + Sum(Tail(ns))
RECURSIVE Prod(_)
Prod(ns) == IF ns = <<>> THEN 1 ELSE Head(ns) * Prod(Tail(ns))
Rep(b, n) == Cat([i \in 1..n |-> b])
Zeros(n) == [i \in 1..n |-> 0]

-----------------------------------------------------------------------------
(* leaf shapes                                                              *)
NullStr == [nl |-> TRUE, b |-> <<>>]
S(b) == [nl |-> FALSE, b |-> b]
StrEmpty(s) == s.nl \/ s.b = <<>>

Nid(k, ns, n, s, g) == [k |-> k, ns |-> ns, n |-> n, s |-> s, g |-> g]
NumId(ns, n) == Nid("num", ns, n, NullStr, <<>>)
StrId(ns, s) == Nid("str", ns, 0, s, <<>>)
GuidId(ns, g) == Nid("guid", ns, 0, NullStr, g)
OpqId(ns, s) == Nid("opq", ns, 0, s, <<>>)
NullId == NumId(0, 0)

\* DateTime points: name -> ticks image
DtMid == <<8, 7, 6, 5, 4, 3, 2, 1>>              \* 0x0102030405060708 ticks (year 1831)
DtMaxBytes == <<255, 255, 255, 255, 255, 255, 255, 127>>
\* ticks of 9999-12-31T23:59:59Z = 2650467743990000000 = 0x24C85A5ED127A980
DtEndBytes == <<128, 169, 39, 209, 94, 90, 200, 36>>
DtNames == {"epoch", "mid", "midsub", "pre", "post", "end"}
DtBytes(n) == CASE n = "epoch" -> Zeros(8)
                [] n = "mid" -> DtMid
                [] n = "midsub" -> DtMid           \* 50 ns after mid: truncated to the 100 ns tick
                [] n = "pre" -> Zeros(8)           \* before 1601: clamped to the epoch
                [] n = "post" -> DtMaxBytes        \* after 9999: written as Int64 max
                [] n = "end" -> DtEndBytes
                [] OTHER -> Zeros(8)
DtNorm(n) == CASE n = "midsub" -> "mid" [] n = "pre" -> "epoch" [] n = "post" -> "end" [] OTHER -> n
\* what the decoder makes of a tick image (anything unknown is "other")
DtOfBytes(b) == IF b = Zeros(8) THEN "epoch" ELSE IF b = DtMid THEN "mid" ELSE IF b = DtMaxBytes \/ b = DtEndBytes THEN "end" ELSE "other"

\* fixed width built-in types: name -> <<type number, width>>
FixTypes == {"Boolean", "SByte", "Byte", "Int16", "UInt16", "Int32", "UInt32", "Int64", "UInt64", "Float", "Double",
             "Guid", "StatusCode"}
TypeNo(t) == CASE t = "Empty" -> 0 [] t = "Boolean" -> 1 [] t = "SByte" -> 2 [] t = "Byte" -> 3 [] t = "Int16" -> 4
               [] t = "UInt16" -> 5 [] t = "Int32" -> 6 [] t = "UInt32" -> 7 [] t = "Int64" -> 8 [] t = "UInt64" -> 9
               [] t = "Float" -> 10 [] t = "Double" -> 11 [] t = "String" -> 12 [] t = "DateTime" -> 13 [] t = "Guid" -> 14
               [] t = "ByteString" -> 15 [] t = "XmlElement" -> 16 [] t = "NodeId" -> 17 [] t = "ExpandedNodeId" -> 18
               [] t = "StatusCode" -> 19 [] t = "QualifiedName" -> 20 [] t = "LocalizedText" -> 21
               [] t = "ExtensionObject" -> 22 [] t = "DataValue" -> 23 [] t = "Variant" -> 24 [] t = "DiagnosticInfo" -> 25
               [] OTHER -> 63
ScalarTypes == {"Boolean", "SByte", "Byte", "Int16", "UInt16", "Int32", "UInt32", "Int64", "UInt64", "Float", "Double",
                "String", "DateTime", "Guid", "ByteString", "XmlElement", "NodeId", "ExpandedNodeId", "StatusCode",
                "QualifiedName", "LocalizedText", "ExtensionObject", "DataValue", "Variant", "DiagnosticInfo"}
TypeTab == [n \in 0..63 |-> IF \E t \in ScalarTypes : TypeNo(t) = n THEN CHOOSE t \in ScalarTypes : TypeNo(t) = n
                             ELSE IF n = 0 THEN "Empty" ELSE "Unknown"]
TypeOfNo(n) == TypeTab[n]
Width(t) == CASE t \in {"Boolean", "SByte", "Byte"} -> 1 [] t \in {"Int16", "UInt16"} -> 2
              [] t \in {"Int32", "UInt32", "Float", "StatusCode"} -> 4 [] t \in {"Int64", "UInt64", "Double"} -> 8
              [] t = "Guid" -> 16 [] OTHER -> 0

-----------------------------------------------------------------------------
(* value constructors (Variant payload field per type: one name, one type)   *)
VEmpty == [t |-> "Empty"]
VFix(t, raw) == [t |-> t, raw |-> raw]
VDt(n) == [t |-> "DateTime", dt |-> n]
VStr(t, s) == [t |-> t, s |-> s]                      \* String, ByteString, XmlElement
VNode(id) == [t |-> "NodeId", id |-> id]
VXNode(x) == [t |-> "ExpandedNodeId", xid |-> x]
VQn(q) == [t |-> "QualifiedName", qn |-> q]
VLt(l) == [t |-> "LocalizedText", lt |-> l]
VEo(e) == [t |-> "ExtensionObject", eo |-> e]
VDv(d) == [t |-> "DataValue", dv |-> d]
VVar(v) == [t |-> "Variant", v |-> v]
VDi(c) == [t |-> "DiagnosticInfo", di |-> c]
NoDims == [some |-> FALSE, d |-> <<>>]
Dims(d) == [some |-> TRUE, d |-> d]
VArr(ety, items, dims) == [t |-> "Array", ety |-> ety, items |-> items, dims |-> dims]

XNid(id, uri, srv) == [id |-> id, uri |-> uri, srv |-> srv]
Qn(ns, name) == [ns |-> ns, name |-> name]
Lt(loc, text) == [loc |-> loc, text |-> text]
Eo(id, enc, body) == [id |-> id, enc |-> enc, body |-> body]      \* enc in {"none", "bytes", "xml"}
\* timestamps of a DataValue: m = 0 absent, 1 timestamp, 2 timestamp and picoseconds
NoTs == [m |-> 0, dt |-> "epoch", p |-> 0]
Ts(m, dt, p) == [m |-> m, dt |-> dt, p |-> p]
Dv(hv, v, hs, st, sts, svs) == [hv |-> hv, v |-> v, hs |-> hs, st |-> st, sts |-> sts, svs |-> svs]
DvNull == Dv(FALSE, VEmpty, FALSE, Zeros(4), NoTs, NoTs)
\* DiagnosticInfo = the chain of inner infos as a non-empty sequence of links; link = six optional fields
None == [some |-> FALSE, x |-> 0]
Some(x) == [some |-> TRUE, x |-> x]
NoneS == [some |-> FALSE, s |-> NullStr]
SomeS(s) == [some |-> TRUE, s |-> s]
NoneR == [some |-> FALSE, raw |-> Zeros(4)]
SomeR(r) == [some |-> TRUE, raw |-> r]
DiLink(sym, nsu, lcl, ltx, add, ist) == [sym |-> sym, nsu |-> nsu, lcl |-> lcl, ltx |-> ltx, add |-> add, ist |-> ist]
DiNullLink == DiLink(None, None, None, None, NoneS, NoneR)

-----------------------------------------------------------------------------
(* Enc: the byte layout                                                      *)
EncStr(s) == IF s.nl THEN LE32(-1) ELSE LE32(Len(s.b)) \o s.b
EncNid(id, flags) ==
  CASE id.k = "num" -> IF id.ns = 0 /\ id.n <= 255 THEN <<0 + flags, id.n>>
                       ELSE IF id.ns <= 255 /\ id.n <= 65535 THEN <<1 + flags, id.ns>> \o LE16(id.n)
                       ELSE <<2 + flags>> \o LE16(id.ns) \o LE32(id.n)
    [] id.k = "str" -> <<3 + flags>> \o LE16(id.ns) \o EncStr(id.s)
    [] id.k = "guid" -> <<4 + flags>> \o LE16(id.ns) \o id.g
    [] id.k = "opq" -> <<5 + flags>> \o LE16(id.ns) \o EncStr(id.s)
EncXNid(x) == EncNid(x.id, (IF ~x.uri.nl THEN 128 ELSE 0) + (IF x.srv # 0 THEN 64 ELSE 0))
              \o (IF ~x.uri.nl THEN EncStr(x.uri) ELSE <<>>) \o (IF x.srv # 0 THEN LE32(x.srv) ELSE <<>>)
EncQn(q) == LE16(q.ns) \o EncStr(q.name)
EncLt(l) == <<(IF ~StrEmpty(l.loc) THEN 1 ELSE 0) + (IF ~StrEmpty(l.text) THEN 2 ELSE 0)>>
            \o (IF ~StrEmpty(l.loc) THEN EncStr(l.loc) ELSE <<>>) \o (IF ~StrEmpty(l.text) THEN EncStr(l.text) ELSE <<>>)
EncEo(e) == EncNid(e.id, 0) \o (CASE e.enc = "none" -> <<0>> [] e.enc = "bytes" -> <<1>> \o EncStr(e.body)
                                  [] e.enc = "xml" -> <<2>> \o EncStr(e.body))
DiMask(l, inner) == (IF l.sym.some THEN 1 ELSE 0) + (IF l.nsu.some THEN 2 ELSE 0) + (IF l.ltx.some THEN 4 ELSE 0)
                    + (IF l.lcl.some THEN 8 ELSE 0) + (IF l.add.some THEN 16 ELSE 0) + (IF l.ist.some THEN 32 ELSE 0)
                    + (IF inner THEN 64 ELSE 0)
\* field order on the wire: symbolic id, namespace uri, locale, localized text, additional info, inner status, inner info
EncDiLink(l, inner) == <<DiMask(l, inner)>> \o (IF l.sym.some THEN LE32(l.sym.x) ELSE <<>>)
                       \o (IF l.nsu.some THEN LE32(l.nsu.x) ELSE <<>>) \o (IF l.lcl.some THEN LE32(l.lcl.x) ELSE <<>>)
                       \o (IF l.ltx.some THEN LE32(l.ltx.x) ELSE <<>>) \o (IF l.add.some THEN EncStr(l.add.s) ELSE <<>>)
                       \o (IF l.ist.some THEN l.ist.raw ELSE <<>>)
EncDi(c) == Cat([i \in 1..Len(c) |-> EncDiLink(c[i], i < Len(c))])
DvMask(d) == (IF d.hv THEN 1 ELSE 0) + (IF d.hs THEN 2 ELSE 0) + (IF d.sts.m >= 1 THEN 4 ELSE 0)
             + (IF d.svs.m >= 1 THEN 8 ELSE 0) + (IF d.sts.m = 2 THEN 16 ELSE 0) + (IF d.svs.m = 2 THEN 32 ELSE 0)
EncTs(ts) == (IF ts.m >= 1 THEN DtBytes(ts.dt) ELSE <<>>) \o (IF ts.m = 2 THEN LE16(ts.p) ELSE <<>>)

RECURSIVE EncVariant(_), EncBody(_), EncDv(_)
EncDv(d) == <<DvMask(d)>> \o (IF d.hv THEN EncVariant(d.v) ELSE <<>>) \o (IF d.hs THEN d.st ELSE <<>>)
            \o EncTs(d.sts) \o EncTs(d.svs)
\* the value without its encoding mask byte
EncBody(v) ==
  CASE v.t = "Empty" -> <<>>
    [] v.t \in FixTypes -> v.raw
    [] v.t = "DateTime" -> DtBytes(v.dt)
    [] v.t \in {"String", "ByteString", "XmlElement"} -> EncStr(v.s)
    [] v.t = "NodeId" -> EncNid(v.id, 0)
    [] v.t = "ExpandedNodeId" -> EncXNid(v.xid)
    [] v.t = "QualifiedName" -> EncQn(v.qn)
    [] v.t = "LocalizedText" -> EncLt(v.lt)
    [] v.t = "ExtensionObject" -> EncEo(v.eo)
    [] v.t = "DataValue" -> EncDv(v.dv)
    [] v.t = "Variant" -> EncVariant(v.v)
    [] v.t = "DiagnosticInfo" -> EncDi(v.di)
EncVariant(v) ==
  IF v.t = "Array"
  THEN <<TypeNo(v.ety) + 128 + (IF v.dims.some THEN 64 ELSE 0)>> \o LE32(Len(v.items))
       \o Cat([i \in 1..Len(v.items) |-> EncBody(v.items[i])])
       \o (IF v.dims.some THEN LE32(Len(v.dims.d)) \o Cat([i \in 1..Len(v.dims.d) |-> LE32(v.dims.d[i])]) ELSE <<>>)
  ELSE <<TypeNo(v.t)>> \o EncBody(v)

-----------------------------------------------------------------------------
(* ByteLen: the predicted length, by its own arithmetic                      *)
LenStr(s) == 4 + IF s.nl THEN 0 ELSE Len(s.b)
LenNid(id) == CASE id.k = "num" -> IF id.ns = 0 /\ id.n <= 255 THEN 2 ELSE IF id.ns <= 255 /\ id.n <= 65535 THEN 4 ELSE 7
                [] id.k = "guid" -> 19
                [] OTHER -> 3 + LenStr(id.s)
LenXNid(x) == LenNid(x.id) + (IF ~x.uri.nl THEN LenStr(x.uri) ELSE 0) + (IF x.srv # 0 THEN 4 ELSE 0)
LenLt(l) == 1 + (IF ~StrEmpty(l.loc) THEN LenStr(l.loc) ELSE 0) + (IF ~StrEmpty(l.text) THEN LenStr(l.text) ELSE 0)
LenEo(e) == LenNid(e.id) + 1 + (IF e.enc = "none" THEN 0 ELSE LenStr(e.body))
LenDiLink(l) == 1 + 4 * Cardinality({f \in {"sym", "nsu", "lcl", "ltx", "ist"} : l[f].some}) + (IF l.add.some THEN LenStr(l.add.s) ELSE 0)
LenDi(c) == Sum([i \in 1..Len(c) |-> LenDiLink(c[i])])
LenTs(ts) == CASE ts.m = 0 -> 0 [] ts.m = 1 -> 8 [] ts.m = 2 -> 10
RECURSIVE LenVariant(_), LenBody(_), LenDv(_)
LenDv(d) == 1 + (IF d.hv THEN LenVariant(d.v) ELSE 0) + (IF d.hs THEN 4 ELSE 0) + LenTs(d.sts) + LenTs(d.svs)
LenBody(v) ==
  CASE v.t = "Empty" -> 0
    [] v.t \in FixTypes -> Width(v.t)
    [] v.t = "DateTime" -> 8
    [] v.t \in {"String", "ByteString", "XmlElement"} -> LenStr(v.s)
    [] v.t = "NodeId" -> LenNid(v.id)
    [] v.t = "ExpandedNodeId" -> LenXNid(v.xid)
    [] v.t = "QualifiedName" -> 2 + LenStr(v.qn.name)
    [] v.t = "LocalizedText" -> LenLt(v.lt)
    [] v.t = "ExtensionObject" -> LenEo(v.eo)
    [] v.t = "DataValue" -> LenDv(v.dv)
    [] v.t = "Variant" -> LenVariant(v.v)
    [] v.t = "DiagnosticInfo" -> LenDi(v.di)
LenVariant(v) ==
  IF v.t = "Array"
  THEN 1 + 4 + Sum([i \in 1..Len(v.items) |-> LenBody(v.items[i])]) + (IF v.dims.some THEN 4 + 4 * Len(v.dims.d) ELSE 0)
  ELSE 1 + LenBody(v)

-----------------------------------------------------------------------------
(* Norm: the documented normalisations of a round trip                       *)
(*   null and empty LocalizedText parts are the same; DateTime is clamped    *)
(*   to 1601..9999 and to 100 ns ticks; the dimensions of an array without   *)
(*   elements are not significant.                                           *)
NormStrE(s) == IF StrEmpty(s) THEN NullStr ELSE s
NormLt(l) == Lt(NormStrE(l.loc), NormStrE(l.text))
NormTs(ts) == [ts EXCEPT !.dt = DtNorm(@)]
RECURSIVE NormVariant(_), NormDv(_)
NormDv(d) == [d EXCEPT !.v = NormVariant(@), !.sts = NormTs(@), !.svs = NormTs(@)]
NormVariant(v) ==
  CASE v.t = "DateTime" -> VDt(DtNorm(v.dt))
    [] v.t = "LocalizedText" -> VLt(NormLt(v.lt))
    [] v.t = "DataValue" -> VDv(NormDv(v.dv))
    [] v.t = "Variant" -> VVar(NormVariant(v.v))
    [] v.t = "Array" -> VArr(v.ety, [i \in 1..Len(v.items) |-> NormVariant(v.items[i])],
                             IF v.items = <<>> THEN NoDims ELSE v.dims)
    [] OTHER -> v
HasEmptyDimArray(v) ==
  LET RECURSIVE H(_)
      H(w) == CASE w.t = "Array" -> (w.items = <<>> /\ w.dims.some) \/ \E i \in 1..Len(w.items) : H(w.items[i])
                [] w.t = "Variant" -> H(w.v)
                [] w.t = "DataValue" -> w.dv.hv /\ H(w.dv.v)
                [] OTHER -> FALSE
  IN H(v)

-----------------------------------------------------------------------------
(* top level dispatch on the type that is encoded / decoded                  *)
(*   "Variant", "DataValue", "DiagnosticInfo", "ExtensionObject", "NodeId", *)
(*   "ExpandedNodeId", "LocalizedText", "QualifiedName", "String",          *)
(*   "ByteString"  and the representative service messages of section Msg   *)
Wrap(ty, x) == CASE ty = "Variant" -> x [] ty = "DataValue" -> VDv(x) [] ty = "DiagnosticInfo" -> VDi(x)
                 [] ty = "ExtensionObject" -> VEo(x) [] ty = "NodeId" -> VNode(x) [] ty = "ExpandedNodeId" -> VXNode(x)
                 [] ty = "LocalizedText" -> VLt(x) [] ty = "QualifiedName" -> VQn(x)
                 [] ty \in {"String", "ByteString"} -> VStr(ty, x)
Unwrap(ty, w) == CASE ty = "Variant" -> w [] ty = "DataValue" -> w.dv [] ty = "DiagnosticInfo" -> w.di
                   [] ty = "ExtensionObject" -> w.eo [] ty = "NodeId" -> w.id [] ty = "ExpandedNodeId" -> w.xid
                   [] ty = "LocalizedText" -> w.lt [] ty = "QualifiedName" -> w.qn
                   [] ty \in {"String", "ByteString"} -> w.s
BuiltIn == {"Variant", "DataValue", "DiagnosticInfo", "ExtensionObject", "NodeId", "ExpandedNodeId", "LocalizedText",
            "QualifiedName", "String", "ByteString"}

-----------------------------------------------------------------------------
(* representative service messages (a handful out of the ~400 generated      *)
(* structures): fixed headers, the containers vary                           *)
\* RequestHeader: null token, timestamp 0, handle 1, diagnostics 0, audit entry id `aud', timeout 0, null additional header
EncReqHdr(aud) == <<0, 0>> \o Zeros(8) \o LE32(1) \o LE32(0) \o EncStr(aud) \o LE32(0) \o <<0, 0, 0>>
LenReqHdr(aud) == 2 + 8 + 4 + 4 + LenStr(aud) + 4 + 3
\* ResponseHeader: timestamp 0, handle 1, Good, diagnostics `di', string table `tbl' (optional array of strings), null header
OptArr(some, items) == [some |-> some, items |-> items]
EncArr(a, E(_)) == IF ~a.some THEN LE32(-1) ELSE LE32(Len(a.items)) \o Cat([i \in 1..Len(a.items) |-> E(a.items[i])])
LenArr(a, L(_)) == 4 + IF ~a.some THEN 0 ELSE Sum([i \in 1..Len(a.items) |-> L(a.items[i])])
EncRespHdr(di, tbl) == Zeros(8) \o LE32(1) \o Zeros(4) \o EncDi(di) \o EncArr(tbl, EncStr) \o <<0, 0, 0>>
LenRespHdr(di, tbl) == 8 + 4 + 4 + LenDi(di) + LenArr(tbl, LenStr) + 3
\* WriteValue = [id, attr, range, dv];  CallMethodRequest = [obj, meth, args (optional array of Variant)]
EncWv(w) == EncNid(w.id, 0) \o LE32(w.attr) \o EncStr(w.range) \o EncDv(w.dv)
LenWv(w) == LenNid(w.id) + 4 + LenStr(w.range) + LenDv(w.dv)
EncCm(c) == EncNid(c.obj, 0) \o EncNid(c.meth, 0) \o EncArr(c.args, EncVariant)
LenCm(c) == LenNid(c.obj) + LenNid(c.meth) + LenArr(c.args, LenVariant)
Msgs == {"WriteRequest", "CallRequest", "ReadResponse", "ServiceFault"}
\*  WriteRequest  [aud, nodes : optional array of WriteValue]
\*  CallRequest   [aud, calls : optional array of CallMethodRequest]
\*  ReadResponse  [di, tbl, results : optional array of DataValue, diags : optional array of DiagnosticInfo]
\*  ServiceFault  [di, tbl]
EncMsg(m, x) == CASE m = "WriteRequest" -> EncReqHdr(x.aud) \o EncArr(x.nodes, EncWv)
                  [] m = "CallRequest" -> EncReqHdr(x.aud) \o EncArr(x.calls, EncCm)
                  [] m = "ReadResponse" -> EncRespHdr(x.di, x.tbl) \o EncArr(x.results, EncDv) \o EncArr(x.diags, EncDi)
                  [] m = "ServiceFault" -> EncRespHdr(x.di, x.tbl)
LenMsg(m, x) == CASE m = "WriteRequest" -> LenReqHdr(x.aud) + LenArr(x.nodes, LenWv)
                  [] m = "CallRequest" -> LenReqHdr(x.aud) + LenArr(x.calls, LenCm)
                  [] m = "ReadResponse" -> LenRespHdr(x.di, x.tbl) + LenArr(x.results, LenDv) + LenArr(x.diags, LenDi)
                  [] m = "ServiceFault" -> LenRespHdr(x.di, x.tbl)
NormArr(a, N(_)) == [a EXCEPT !.items = [i \in 1..Len(a.items) |-> N(a.items[i])]]
NormWv(w) == [w EXCEPT !.dv = NormDv(@)]
NormCm(c) == [c EXCEPT !.args = NormArr(@, NormVariant)]
NormMsg(m, x) == CASE m = "WriteRequest" -> [x EXCEPT !.nodes = NormArr(@, NormWv)]
                   [] m = "CallRequest" -> [x EXCEPT !.calls = NormArr(@, NormCm)]
                   [] m = "ReadResponse" -> [x EXCEPT !.results = NormArr(@, NormDv)]
                   [] OTHER -> x

Enc(ty, x) == IF ty \in Msgs THEN EncMsg(ty, x) ELSE IF ty = "Variant" THEN EncVariant(x) ELSE EncBody(Wrap(ty, x))
ByteLen(ty, x) == IF ty \in Msgs THEN LenMsg(ty, x) ELSE IF ty = "Variant" THEN LenVariant(x) ELSE LenBody(Wrap(ty, x))
Norm(ty, x) == IF ty \in Msgs THEN NormMsg(ty, x) ELSE Unwrap(ty, NormVariant(Wrap(ty, x)))
\* cases and observations carry every value as a record with a type tag t (uniformly typed for TLC)
WrapC(ty, x) == IF ty \in Msgs THEN [t |-> ty, msg |-> x] ELSE Wrap(ty, x)
UnwrapC(ty, w) == IF ty \in Msgs THEN w.msg ELSE Unwrap(ty, w)

-----------------------------------------------------------------------------
(* decoding options and the limit rule (C03 decision table)                  *)
Opts(msg, str, bs, arr, depth) == [msg |-> msg, str |-> str, bs |-> bs, arr |-> arr, depth |-> depth]
DefaultOpts == Opts(327675, 65535, 65535, 1000, 10)
MinimalOpts == Opts(327675, 8192, 8192, 8192, 1)
\* a declared length l is accepted under the limit L iff it is the null marker or within 0..L
LenOK(l, L) == l = -1 \/ (0 <= l /\ l <= L)
LimitOf(o, kind) == CASE kind = "str" -> o.str [] kind = "bs" -> o.bs [] kind = "arr" -> o.arr
\* a chunk of declared size l under max_message_size L (0 = no limit)
ChunkOK(l, L) == L = 0 \/ l <= L

(* edges of the container grammar on which the decoder must take a depth lock.  Every cycle of the grammar   *)
(* (Variant>Variant, Variant>DataValue>Variant, DiagnosticInfo>DiagnosticInfo) passes one of them.          *)
LockEdges == {"V>V", "V>DV", "DI>DI", ">EO"}

-----------------------------------------------------------------------------
(* Dec: the decoder.  State s; every operator returns [s, v].                 *)
(*   dv = design variation: [nolock : set of edges that take no lock,        *)
(*        dims : "all" | "nonnull" | "never"  -- when the dimensions of an    *)
(*        array with declared length <= 0 are consumed]                       *)
Design == [nolock |-> {}, dims |-> "all"]
St0 == [p |-> 1, ok |-> TRUE, d |-> 0, hi |-> 0, live |-> 0, pk |-> 0]
Fail(s) == [s EXCEPT !.ok = FALSE]
R(s, v) == [s |-> s, v |-> v]
ElemBytes == 64  \* what one pre-allocated array element costs in the model (the judge uses the measured size_of)
\* peak allocation allowed for a message of M bytes: elements that were decoded (each took at least one byte of the
\* message), one array being filled per nesting level, the strings (their bytes come from the message), slack
AllocBound(o, M, eb) == eb * (M + 2 * (o.depth + 2) * o.arr) + 2 * (o.str + o.bs) + 4 * M + 65536

Take(B, s, n) == IF s.ok /\ s.p + n - 1 <= Len(B) THEN R([s EXCEPT !.p = @ + n], SubSeq(B, s.p, s.p + n - 1))
                 ELSE R(Fail(s), <<>>)
U8(B, s) == LET r == Take(B, s, 1) IN R(r.s, IF r.s.ok THEN r.v[1] ELSE 0)
U16(B, s) == LET r == Take(B, s, 2) IN R(r.s, IF r.s.ok THEN FromLE16(r.v) ELSE 0)
I32(B, s) == LET r == Take(B, s, 4) IN R(r.s, IF r.s.ok THEN FromLE32(r.v) ELSE 0)
Raw(B, s, n) == LET r == Take(B, s, n) IN R(r.s, IF r.s.ok THEN r.v ELSE Zeros(n))
AllocB(s, n) == LET l == s.live + n IN [s EXCEPT !.live = l, !.pk = Max(@, l)]          \* n bytes
AllocE(s, n) == AllocB(s, n * ElemBytes)                                                   \* n array elements
Lock(s, o, dv, e) == IF e \in dv.nolock THEN s
                     ELSE IF s.d >= o.depth THEN Fail(s)
                     ELSE [s EXCEPT !.d = @ + 1, !.hi = Max(@, s.d + 1)]
Unlock(s, dv, e) == IF e \in dv.nolock \/ ~s.ok THEN s ELSE [s EXCEPT !.d = @ - 1]

\* string / byte string: the length word is checked before the buffer is allocated
DStr(B, s, L) == LET r == I32(B, s) IN
  IF ~r.s.ok \/ r.v = -1 THEN R(r.s, NullStr)
  ELSE IF ~LenOK(r.v, L) THEN R(Fail(r.s), NullStr)
  ELSE LET t == Take(B, AllocB(r.s, r.v), r.v) IN R(t.s, IF t.s.ok THEN S(t.v) ELSE NullStr)

DNidK(B, s, o, k) ==
  CASE k = 0 -> LET a == U8(B, s) IN R(a.s, NumId(0, a.v))
    [] k = 1 -> LET a == U8(B, s) b == U16(B, a.s) IN R(b.s, NumId(a.v, b.v))
    [] k = 2 -> LET a == U16(B, s) b == I32(B, a.s) IN R(b.s, NumId(a.v, b.v))
    [] k = 3 -> LET a == U16(B, s) b == DStr(B, a.s, o.str) IN R(b.s, StrId(a.v, b.v))
    [] k = 4 -> LET a == U16(B, s) b == Raw(B, a.s, 16) IN R(b.s, GuidId(a.v, b.v))
    [] k = 5 -> LET a == U16(B, s) b == DStr(B, a.s, o.bs) IN R(b.s, OpqId(a.v, b.v))
    [] OTHER -> R(Fail(s), NullId)
DNid(B, s, o) == LET f == U8(B, s) IN IF ~f.s.ok THEN R(f.s, NullId) ELSE DNidK(B, f.s, o, f.v)
DXNid(B, s, o) == LET f == U8(B, s) IN
  IF ~f.s.ok THEN R(f.s, XNid(NullId, NullStr, 0))
  ELSE LET id == DNidK(B, f.s, o, f.v % 16)
           uri == IF (f.v \div 128) % 2 = 1 THEN DStr(B, id.s, o.str) ELSE R(id.s, NullStr)
           srv == IF (f.v \div 64) % 2 = 1 THEN I32(B, uri.s) ELSE R(uri.s, 0)
       IN R(srv.s, XNid(id.v, uri.v, srv.v))
DQn(B, s, o) == LET a == U16(B, s) b == DStr(B, a.s, o.str) IN R(b.s, Qn(a.v, b.v))
DLt(B, s, o) == LET m == U8(B, s)
                    a == IF m.v % 2 = 1 THEN DStr(B, m.s, o.str) ELSE R(m.s, NullStr)
                    b == IF (m.v \div 2) % 2 = 1 THEN DStr(B, a.s, o.str) ELSE R(a.s, NullStr)
                IN R(b.s, Lt(a.v, b.v))
\* ExtensionObject: a depth lock for the whole object; the body stays an opaque byte string
DEo(B, s, o, dv) == LET l == Lock(s, o, dv, ">EO")
                        id == DNid(B, l, o)
                        m == U8(B, id.s)
                        b == CASE m.v = 0 -> R(m.s, NullStr) [] m.v = 1 -> DStr(B, m.s, o.bs) [] m.v = 2 -> DStr(B, m.s, o.str)
                               [] OTHER -> R(Fail(m.s), NullStr)
                    IN R(Unlock(b.s, dv, ">EO"),
                         Eo(id.v, CASE m.v = 1 -> "bytes" [] m.v = 2 -> "xml" [] OTHER -> "none", b.v))
Bit(m, k) == (m \div k) % 2 = 1
OptI32(B, s, present) == IF present THEN LET r == I32(B, s) IN R(r.s, Some(r.v)) ELSE R(s, None)
\* DiagnosticInfo: the inner info is entered under a depth lock
RECURSIVE DDi(_, _, _, _)
DDi(B, s, o, dv) ==
  LET m == U8(B, s)
      a == OptI32(B, m.s, Bit(m.v, 1))
      b == OptI32(B, a.s, Bit(m.v, 2))
      c == OptI32(B, b.s, Bit(m.v, 8))
      e == OptI32(B, c.s, Bit(m.v, 4))
      f == IF Bit(m.v, 16) THEN LET r == DStr(B, e.s, o.str) IN R(r.s, SomeS(r.v)) ELSE R(e.s, NoneS)
      g == IF Bit(m.v, 32) THEN LET r == Raw(B, f.s, 4) IN R(r.s, SomeR(r.v)) ELSE R(f.s, NoneR)
      link == DiLink(a.v, b.v, c.v, e.v, f.v, g.v)
  IN IF ~g.s.ok THEN R(g.s, <<DiNullLink>>)
     ELSE IF Bit(m.v, 64)
          THEN LET l == Lock(g.s, o, dv, "DI>DI") IN
               IF ~l.ok THEN R(l, <<DiNullLink>>)
               ELSE LET r == DDi(B, l, o, dv) IN R(Unlock(r.s, dv, "DI>DI"), <<link>> \o r.v)
          ELSE R(g.s, <<link>>)
DTs(B, s, hasT, hasP) == LET t == IF hasT THEN Raw(B, s, 8) ELSE R(s, Zeros(8))
                             p == IF hasP THEN U16(B, t.s) ELSE R(t.s, 0)
                         \* picoseconds without their timestamp are read and dropped
                         IN R(p.s, IF ~hasT THEN NoTs ELSE Ts(IF hasP THEN 2 ELSE 1, DtOfBytes(t.v), p.v))

RECURSIVE DVariant(_, _, _, _), DBody(_, _, _, _, _), DDv(_, _, _, _), DItems(_, _, _, _, _, _, _)
DDv(B, s, o, dv) ==
  LET m == U8(B, s)
      v == IF Bit(m.v, 1) /\ m.s.ok THEN DVariant(B, m.s, o, dv) ELSE R(m.s, VEmpty)
      st == IF Bit(m.v, 2) THEN Raw(B, v.s, 4) ELSE R(v.s, Zeros(4))
      \* wire order: source timestamp, source picoseconds, server timestamp, server picoseconds
      a == DTs(B, st.s, Bit(m.v, 4), Bit(m.v, 16))
      b == DTs(B, a.s, Bit(m.v, 8), Bit(m.v, 32))
  IN R(b.s, Dv(Bit(m.v, 1), v.v, Bit(m.v, 2), st.v, a.v, b.v))
\* the value of built-in type number n, without encoding mask
DBody(B, s, o, dv, n) ==
  LET t == TypeOfNo(n) IN
  CASE ~s.ok -> R(s, VEmpty)
    [] t \in FixTypes -> LET r == Raw(B, s, Width(t)) IN R(r.s, VFix(t, r.v))
    [] t = "DateTime" -> LET r == Raw(B, s, 8) IN R(r.s, VDt(DtOfBytes(r.v)))
    [] t \in {"String", "XmlElement"} -> LET r == DStr(B, s, o.str) IN R(r.s, VStr(t, r.v))
    [] t = "ByteString" -> LET r == DStr(B, s, o.bs) IN R(r.s, VStr(t, r.v))
    [] t = "NodeId" -> LET r == DNid(B, s, o) IN R(r.s, VNode(r.v))
    [] t = "ExpandedNodeId" -> LET r == DXNid(B, s, o) IN R(r.s, VXNode(r.v))
    [] t = "QualifiedName" -> LET r == DQn(B, s, o) IN R(r.s, VQn(r.v))
    [] t = "LocalizedText" -> LET r == DLt(B, s, o) IN R(r.s, VLt(r.v))
    [] t = "ExtensionObject" -> LET r == DEo(B, s, o, dv) IN R(r.s, VEo(r.v))
    [] t = "DataValue" -> LET l == Lock(s, o, dv, "V>DV") IN
                          IF ~l.ok THEN R(l, VEmpty) ELSE LET r == DDv(B, l, o, dv) IN R(Unlock(r.s, dv, "V>DV"), VDv(r.v))
    [] t = "Variant" -> LET l == Lock(s, o, dv, "V>V") IN
                        IF ~l.ok THEN R(l, VEmpty) ELSE LET r == DVariant(B, l, o, dv) IN R(Unlock(r.s, dv, "V>V"), VVar(r.v))
    [] t = "DiagnosticInfo" -> LET r == DDi(B, s, o, dv) IN R(r.s, VDi(r.v))
    [] OTHER -> R(s, VEmpty)       \* Empty and unknown type numbers: no bytes
DItems(B, s, o, dv, n, k, acc) ==
  IF k = 0 \/ ~s.ok THEN R(s, acc)
  ELSE LET r == DBody(B, s, o, dv, n) IN DItems(B, r.s, o, dv, n, k - 1, Append(acc, r.v))
\* an array of Int32 / UInt32 read with the generic array rule (the dimensions)
RECURSIVE DI32s(_, _, _, _)
DI32s(B, s, k, acc) == IF k = 0 \/ ~s.ok THEN R(s, acc) ELSE LET r == I32(B, s) IN DI32s(B, r.s, k - 1, Append(acc, r.v))
DDims(B, s, o) == LET l == I32(B, s) IN
  IF ~l.s.ok THEN R(l.s, NoDims)
  ELSE IF l.v = -1 THEN R(l.s, NoDims)
  ELSE IF ~LenOK(l.v, o.arr) THEN R(Fail(l.s), NoDims)
  ELSE LET r == DI32s(B, AllocB(l.s, 4 * l.v), l.v, <<>>) IN R(r.s, Dims(r.v))
DVariant(B, s, o, dv) ==
  LET m == U8(B, s)
      n == m.v % 64
      isArr == Bit(m.v, 128)
      hasDims == Bit(m.v, 64)
  IN IF ~m.s.ok THEN R(m.s, VEmpty)
     ELSE IF ~isArr THEN (IF hasDims THEN R(Fail(m.s), VEmpty) ELSE DBody(B, m.s, o, dv, n))
     ELSE LET l == I32(B, m.s) IN
          IF ~l.s.ok THEN R(l.s, VEmpty)
          ELSE IF ~LenOK(l.v, o.arr) \/ TypeOfNo(n) \in {"Empty", "Unknown"} THEN R(Fail(l.s), VEmpty)
          ELSE IF l.v <= 0
          THEN \* no elements: the dimensions, when the mask announces them, are still part of the value
               IF hasDims /\ (dv.dims = "all" \/ (dv.dims = "nonnull" /\ l.v = 0))
               THEN LET dm == DDims(B, l.s, o) IN
                    IF dm.s.ok /\ dm.v.d # <<>> /\ Prod(dm.v.d) # 0 THEN R(Fail(dm.s), VEmpty)
                    ELSE R(dm.s, VArr(TypeOfNo(n), <<>>, Dims(dm.v.d)))
               ELSE R(l.s, VArr(TypeOfNo(n), <<>>, Dims(<<>>)))
          ELSE LET it == DItems(B, AllocE(l.s, l.v), o, dv, n, l.v, <<>>) IN
               IF ~it.s.ok THEN R(it.s, VEmpty)
               ELSE IF ~hasDims THEN R(it.s, VArr(TypeOfNo(n), it.v, NoDims))
               ELSE LET dm == DDims(B, it.s, o) IN
                    IF ~dm.s.ok THEN R(dm.s, VEmpty)
                    ELSE IF ~dm.v.some \/ (\E i \in 1..Len(dm.v.d) : dm.v.d[i] <= 0) \/ Prod(dm.v.d) # l.v
                         THEN R(Fail(dm.s), VEmpty)
                         ELSE R(dm.s, VArr(TypeOfNo(n), it.v, dm.v))

\* generic array of a structure: null (-1), else the length is checked before the vector is reserved
DArr(D(_, _), B, s, o) == LET l == I32(B, s) IN
  IF ~l.s.ok THEN R(l.s, OptArr(FALSE, <<>>))
  ELSE IF l.v = -1 THEN R(l.s, OptArr(FALSE, <<>>))
  ELSE IF ~LenOK(l.v, o.arr) THEN R(Fail(l.s), OptArr(FALSE, <<>>))
  ELSE LET RECURSIVE F(_, _, _)
           F(ss, k, acc) == IF k = 0 \/ ~ss.ok THEN R(ss, acc) ELSE LET r == D(B, ss) IN F(r.s, k - 1, Append(acc, r.v))
           r == F(AllocE(l.s, l.v), l.v, <<>>)
       IN R(r.s, OptArr(TRUE, r.v))

DReqHdr(B, s, o, dv) == LET a == DNid(B, s, o) b == Raw(B, a.s, 8) c == I32(B, b.s) d == I32(B, c.s)
                            e == DStr(B, d.s, o.str) f == I32(B, e.s) g == DEo(B, f.s, o, dv)
                        IN R(g.s, e.v)
DRespHdr(B, s, o, dv) == LET a == Raw(B, s, 8) b == I32(B, a.s) c == Raw(B, b.s, 4) d == DDi(B, c.s, o, dv)
                             DS(BB, ss) == DStr(BB, ss, o.str)
                             e == DArr(DS, B, d.s, o) f == DEo(B, e.s, o, dv)
                         IN R(f.s, [di |-> d.v, tbl |-> e.v])
DWv(B, s, o, dv) == LET a == DNid(B, s, o) b == I32(B, a.s) c == DStr(B, b.s, o.str) d == DDv(B, c.s, o, dv)
                    IN R(d.s, [id |-> a.v, attr |-> b.v, range |-> c.v, dv |-> d.v])
DCm(B, s, o, dv) == LET a == DNid(B, s, o) b == DNid(B, a.s, o)
                        DVv(BB, ss) == DVariant(BB, ss, o, dv)
                        c == DArr(DVv, B, b.s, o)
                    IN R(c.s, [obj |-> a.v, meth |-> b.v, args |-> c.v])
DMsg(m, B, s, o, dv) ==
  CASE m = "WriteRequest" -> LET h == DReqHdr(B, s, o, dv) DW(BB, ss) == DWv(BB, ss, o, dv) a == DArr(DW, B, h.s, o)
                             IN R(a.s, [aud |-> h.v, nodes |-> a.v])
    [] m = "CallRequest" -> LET h == DReqHdr(B, s, o, dv) DC(BB, ss) == DCm(BB, ss, o, dv) a == DArr(DC, B, h.s, o)
                            IN R(a.s, [aud |-> h.v, calls |-> a.v])
    [] m = "ReadResponse" -> LET h == DRespHdr(B, s, o, dv) DD(BB, ss) == DDv(BB, ss, o, dv) DG(BB, ss) == DDi(BB, ss, o, dv)
                                 a == DArr(DD, B, h.s, o) b == DArr(DG, B, a.s, o)
                             IN R(b.s, [di |-> h.v.di, tbl |-> h.v.tbl, results |-> a.v, diags |-> b.v])
    [] m = "ServiceFault" -> LET h == DRespHdr(B, s, o, dv) IN R(h.s, h.v)

\* decode one value of type ty starting in state s
DecAt(ty, B, s, o, dv) ==
  CASE ty \in Msgs -> DMsg(ty, B, s, o, dv)
    [] ty = "Variant" -> DVariant(B, s, o, dv)
    [] ty = "DataValue" -> DDv(B, s, o, dv)
    [] ty = "DiagnosticInfo" -> DDi(B, s, o, dv)
    [] ty = "ExtensionObject" -> DEo(B, s, o, dv)
    [] ty = "NodeId" -> DNid(B, s, o)
    [] ty = "ExpandedNodeId" -> DXNid(B, s, o)
    [] ty = "LocalizedText" -> DLt(B, s, o)
    [] ty = "QualifiedName" -> DQn(B, s, o)
    [] ty = "String" -> DStr(B, s, o.str)
    [] ty = "ByteString" -> DStr(B, s, o.bs)
Dec(ty, B, o, dv) == DecAt(ty, B, St0, o, dv)
=============================================================================
