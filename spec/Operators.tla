----------------------------- MODULE Operators -----------------------------
(***************************************************************************)
(* C39 (operator half)  Event filter where-clauses: OPC UA Part 4 operator  *)
(* semantics with NULL handling over a small value domain.                  *)
(*                                                                          *)
(* A clause is a sequence of elements [op, args]; element 1 is evaluated;   *)
(* an operand is a literal, a simple attribute operand (resolves to a value *)
(* of the event or to NULL), an element operand (0-based index, as on the   *)
(* wire), an attribute operand (not permitted in event filters) or an       *)
(* undecodable extension object.  Numeric values are points of NumLine, so  *)
(* implicit conversion is the conversion of C06 (type precedence, range).   *)
(*                                                                          *)
(* Eval returns the SET of results the statement admits (one value where    *)
(* Part 4 is definite; where Part 4 leaves the result open - a NULL operand *)
(* of a comparison, ordering of Booleans or Strings, non-integer operands   *)
(* of the bitwise operators, Cast - several).                               *)
(***************************************************************************)
EXTENDS NumLine, Like

V(t, v) == [t |-> t, v |-> v]
Null == V("Null", "")
TT == V("Boolean", "1")
FF == V("Boolean", "0")
AnyV == V("AnyV", "")                         \* result not constrained by the statement
Bool(b) == IF b THEN TT ELSE FF
AnyB == {TT, FF, Null}

ONumTypes == {"SByte", "Byte", "Int32", "UInt32", "Double"}
OIntTypes == ONumTypes \ {"Double"}
\* type precedence of Part 4 (1 = highest)
Prec(t) == CASE t = "Double" -> 1 [] t = "Int32" -> 5 [] t = "UInt32" -> 6 [] t = "SByte" -> 10 [] t = "Byte" -> 11
             [] t = "Boolean" -> 12 [] t = "String" -> 14 [] OTHER -> 100

\* the strings of the domain that read as numbers
StrNum(s) == CASE s = "1" -> "1" [] s = "200" -> "200" [] OTHER -> "none"
StrBool(s) == CASE s \in {"true", "1"} -> TT [] s \in {"false", "0"} -> FF [] OTHER -> Null
\* characters of the strings of the domain (for LIKE)
Chars(s) == CASE s = "1" -> <<"1">> [] s = "200" -> <<"2", "0", "0">> [] s = "true" -> <<"t", "r", "u", "e">>
              [] s = "ab" -> <<"a", "b">> [] s = "a%" -> <<"a", "%">> [] s = "b" -> <<"b">> [] OTHER -> <<>>

Fail == V("Fail", "")
NumTo(p, T) == IF InRange(p, T) /\ (T \in OIntTypes => At(p).k = "int") THEN V(T, p) ELSE Fail
\* implicit conversion of value x to type T (T has the higher precedence)
ImplicitConv(x, T) ==
  CASE x.t = T -> x
    [] x.t \in ONumTypes /\ T \in ONumTypes -> IF Implicit(x.t, T) THEN NumTo(x.v, T) ELSE Fail
    [] x.t = "Boolean" /\ T \in ONumTypes -> V(T, x.v)
    [] x.t = "String" /\ T \in ONumTypes -> IF StrNum(x.v) = "none" THEN Fail ELSE NumTo(StrNum(x.v), T)
    [] x.t = "String" /\ T = "Boolean" -> IF StrBool(x.v) = Null THEN Fail ELSE StrBool(x.v)
    [] OTHER -> Fail

\* "null" an operand is NULL, "none" no common type / conversion failed, else lt eq gt for numbers and ueq ne for the
\* types without an order that Part 4 speaks of (Boolean, String)
Cmp(a, b) ==
  IF a = Null \/ b = Null THEN "null"
  ELSE LET T == IF Prec(a.t) <= Prec(b.t) THEN a.t ELSE b.t
           x == ImplicitConv(a, T)
           y == ImplicitConv(b, T)
       IN IF x = Fail \/ y = Fail THEN "none"
          ELSE IF T \in ONumTypes THEN (IF x.v = y.v THEN "eq" ELSE IF Le(x.v, y.v) THEN "lt" ELSE "gt")
          ELSE IF x.v = y.v THEN "ueq" ELSE "ne"

CmpOps == {"Equals", "GreaterThan", "LessThan", "GreaterThanOrEqual", "LessThanOrEqual"}
Holds(op, c) ==      \* for c in lt eq gt
  CASE op = "Equals" -> c = "eq" [] op = "GreaterThan" -> c = "gt" [] op = "LessThan" -> c = "lt"
    [] op = "GreaterThanOrEqual" -> c \in {"gt", "eq"} [] op = "LessThanOrEqual" -> c \in {"lt", "eq"}
CmpResult(op, c) ==
  CASE c = "null" -> {FF, Null}
    [] c = "none" -> {FF}
    [] c \in {"ueq", "ne"} -> IF op = "Equals" THEN {Bool(c = "ueq")} ELSE AnyB     \* no order on Booleans / Strings
    [] OTHER -> {Bool(Holds(op, c))}

ToBool(x) == CASE x.t = "Boolean" -> x [] x.t = "String" -> StrBool(x.v) [] OTHER -> Null

\* bitwise arithmetic on the small integers of the domain; "2^32-1" is all ones
IntOf(p) == CASE p = "-1" -> -1 [] p = "0" -> 0 [] p = "1" -> 1 [] p = "2" -> 2 [] p = "200" -> 200
RECURSIVE BitN(_, _, _)
BitN(and, a, b) ==
  IF a = 0 /\ b = 0 THEN 0
  ELSE (IF and THEN (a % 2) * (b % 2) ELSE (IF (a % 2) + (b % 2) > 0 THEN 1 ELSE 0)) + 2 * BitN(and, a \div 2, b \div 2)
Dec(p) == IF p = "2^32-1" THEN "4294967295" ELSE p
BitPts(and, p, q) ==         \* decimal text of the result
  IF p = "2^32-1" \/ p = "-1" THEN (IF and THEN Dec(q) ELSE Dec(p))
  ELSE IF q = "2^32-1" \/ q = "-1" THEN (IF and THEN Dec(p) ELSE Dec(q))
  ELSE ToString(BitN(and, IntOf(p), IntOf(q)))
Bitwise(and, a, b) ==
  IF a = Null \/ b = Null THEN {Null}
  ELSE LET T == IF Prec(a.t) <= Prec(b.t) THEN a.t ELSE b.t
           x == ImplicitConv(a, T)
           y == ImplicitConv(b, T)
           r == IF x = Fail \/ y = Fail \/ T \notin OIntTypes THEN Null ELSE V(T, BitPts(and, x.v, y.v))
       IN IF a.t \in OIntTypes /\ b.t \in OIntTypes THEN {r} ELSE {r, Null}   \* "operands that resolve to an integer"

LikeRes(a, b) ==
  IF a = Null \/ b = Null THEN {FF, Null}
  ELSE IF a.t = "String" /\ b.t = "String" THEN {Bool(Match(Chars(b.v), Chars(a.v)))}
  ELSE {FF}

Apply(op, xs) ==
  IF \E i \in DOMAIN xs : xs[i] = AnyV THEN {AnyV}
  ELSE CASE op = "IsNull" -> {Bool(xs[1] = Null)}
    [] op = "Not" -> LET b == ToBool(xs[1]) IN {IF b = Null THEN Null ELSE Bool(b = FF)}
    [] op = "And" -> LET a == ToBool(xs[1]) b == ToBool(xs[2]) IN
                       {IF a = TT /\ b = TT THEN TT ELSE IF a = FF \/ b = FF THEN FF ELSE Null}
    [] op = "Or" -> LET a == ToBool(xs[1]) b == ToBool(xs[2]) IN
                       {IF a = TT \/ b = TT THEN TT ELSE IF a = FF /\ b = FF THEN FF ELSE Null}
    [] op \in CmpOps -> CmpResult(op, Cmp(xs[1], xs[2]))
    [] op = "Between" ->
         LET c1 == Cmp(xs[1], xs[2]) c2 == Cmp(xs[1], xs[3]) IN
         IF c1 = "null" \/ c2 = "null" THEN {FF, Null}
         ELSE IF {c1, c2} \cap {"ueq", "ne"} # {} THEN AnyB
         ELSE {Bool(c1 \in {"gt", "eq"} /\ c2 \in {"lt", "eq"})}
    [] op = "InList" ->
         LET cs == {Cmp(xs[1], xs[j]) : j \in 2..Len(xs)} IN
         IF cs \cap {"eq", "ueq"} # {} THEN {TT} ELSE IF "null" \in cs THEN {FF, Null} ELSE {FF}
    [] op = "Like" -> LikeRes(xs[1], xs[2])
    [] op = "BitwiseAnd" -> Bitwise(TRUE, xs[1], xs[2])
    [] op = "BitwiseOr" -> Bitwise(FALSE, xs[1], xs[2])
    [] OTHER -> {AnyV}          \* Cast: covered by C06, not constrained here

-----------------------------------------------------------------------------
(* clauses *)
Ops == CmpOps \cup {"IsNull", "Not", "And", "Or", "Between", "InList", "Like", "BitwiseAnd", "BitwiseOr", "Cast"}
Arity(op) == CASE op \in {"IsNull", "Not"} -> 1 [] op = "Between" -> 3 [] OTHER -> 2
ArgsOK(e) == IF e.op = "InList" THEN Len(e.args) >= 2 ELSE Len(e.args) = Arity(e.op)

Lit(x) == [k |-> "lit", t |-> x.t, v |-> x.v, i |-> 0]
El(i) == [k |-> "el", t |-> "", v |-> "", i |-> i]
SAttr(w) == [k |-> "sattr", t |-> "", v |-> w, i |-> 0]     \* "present": Int32 2 in the address space, "missing": NULL
AttrOperand == [k |-> "attr", t |-> "", v |-> "", i |-> 0]
BadOperand == [k |-> "bad", t |-> "", v |-> "", i |-> 0]
E(op, args) == [op |-> op, args |-> args]

RECURSIVE WFFrom(_, _, _)
\* element i (1-based) and everything below it is well formed; path = elements on the way (no loops)
WFFrom(cl, i, path) ==
  /\ cl[i].op \in Ops
  /\ ArgsOK(cl[i])
  /\ \A j \in DOMAIN cl[i].args : LET a == cl[i].args[j] IN
       CASE a.k \in {"lit", "sattr"} -> TRUE
         [] a.k = "el" -> a.i + 1 \in DOMAIN cl /\ a.i + 1 \notin path /\ WFFrom(cl, a.i + 1, path \cup {a.i + 1})
         [] OTHER -> FALSE
WellFormed(cl) == cl # <<>> /\ WFFrom(cl, 1, {1})

AttrValue == V("Int32", "2")
RECURSIVE Eval(_, _)
Eval(cl, i) ==      \* for well formed clauses
  LET e == cl[i]
      vals(a) == CASE a.k = "lit" -> {V(a.t, a.v)}
                   [] a.k = "sattr" -> {IF a.v = "present" THEN AttrValue ELSE Null}
                   [] a.k = "el" -> Eval(cl, a.i + 1)
      sets == [j \in DOMAIN e.args |-> vals(e.args[j])]
      U == UNION {sets[j] : j \in DOMAIN sets}
  IN UNION {Apply(e.op, xs) : xs \in {f \in [DOMAIN sets -> U] : \A j \in DOMAIN sets : f[j] \in sets[j]}}
Expected(cl) == IF cl = <<>> THEN {TT} ELSE Eval(cl, 1)

-----------------------------------------------------------------------------
(* L2: the verdict on a real evaluation.  r = [fail, site, k "ok" | "err", t, v]                              *)
(* Every accepted clause: evaluation returns (no panic, no abort, no time-out).  Well formed clauses: the     *)
(* result is one that the statement admits; an error status is not.                                            *)
OpsViol(cl, r) ==
  IF r.fail # "none" THEN {"fail:" \o r.site}
  ELSE IF ~WellFormed(cl) THEN {}
  ELSE LET ex == Expected(cl) IN
       IF AnyV \in ex THEN {}
       ELSE IF r.k = "err" THEN {"well-formed-clause-evaluates-to-error:" \o r.v}
       ELSE IF V(r.t, r.v) \notin ex THEN {"result-differs-from-operator-semantics:" \o cl[1].op}
       ELSE {}

-----------------------------------------------------------------------------
(* the input space *)
Lits == {Null, TT, FF, V("SByte", "-1"), V("Byte", "1"), V("Byte", "200"), V("Int32", "-1"), V("Int32", "2"),
         V("UInt32", "2"), V("UInt32", "2^32-1"), V("Double", "1.5"), V("Double", "2"),
         V("String", "1"), V("String", "true"), V("String", "ab"), V("String", "a%")}
Opnds == {Lit(x) : x \in Lits} \cup {SAttr("present"), SAttr("missing")}
\* quick tier: one representative per kind of value
OpndsQuick == {Lit(x) : x \in {Null, TT, V("SByte", "-1"), V("Byte", "200"), V("Int32", "2"), V("UInt32", "2^32-1"),
                               V("Double", "1.5"), V("String", "1"), V("String", "ab"), V("String", "a%")}}
              \cup {SAttr("missing")}
\* a smaller set for the three-operand operators
Lits3 == {Null, V("SByte", "-1"), V("Byte", "200"), V("Int32", "2"), V("UInt32", "2^32-1"), V("Double", "1.5"), V("String", "1")}
Opnds3 == {Lit(x) : x \in Lits3}
Small == {Lit(V("Int32", "2")), Lit(TT)}

Single ==
  {<<E(op, <<a, b>>)>> : op \in Ops \ {"IsNull", "Not", "Between"}, a \in Opnds, b \in Opnds}
  \cup {<<E(op, <<a>>)>> : op \in {"IsNull", "Not"}, a \in Opnds}
  \cup {<<E(op, <<a, b, c>>)>> : op \in {"Between", "InList"}, a \in Opnds3, b \in Opnds3, c \in Opnds3}

\* two levels: logical operators over sub-elements
Pool == {E("Equals", <<Lit(V("Int32", "2")), Lit(V("UInt32", "2"))>>),           \* TRUE
         E("GreaterThan", <<Lit(V("SByte", "-1")), Lit(V("Byte", "200"))>>),     \* conversion fails: FALSE
         E("Equals", <<SAttr("missing"), Lit(V("Int32", "2"))>>),                \* NULL operand
         E("Not", <<Lit(Null)>>),                                                 \* NULL
         E("Like", <<Lit(V("String", "ab")), Lit(V("String", "a%"))>>),          \* TRUE
         E("BitwiseAnd", <<Lit(V("Byte", "200")), Lit(V("Int32", "-1"))>>),      \* a number
         E("LessThan", <<Lit(V("Double", "1.5")), SAttr("present")>>),           \* TRUE
         E("InList", <<Lit(V("String", "1")), Lit(V("Int32", "2")), Lit(V("Byte", "1"))>>)}  \* TRUE
Nested ==
  {<<E(op, <<El(1), El(2)>>), x, y>> : op \in {"And", "Or", "Equals"}, x \in Pool, y \in Pool}
  \cup {<<E(op, <<El(1)>>), x>> : op \in {"Not", "IsNull"}, x \in Pool}
  \cup {<<E("And", <<El(1), El(1)>>), E("Or", <<El(2), Lit(FF)>>), x>> : x \in Pool}       \* shared sub-element, three levels
NotChain(d) == [i \in 1..d |-> IF i < d THEN E("Not", <<El(i)>>) ELSE E("IsNull", <<Lit(Null)>>)]
ChainDepths == {2, 3, 40}          \* thorough adds 1000, the longest element array the default decoding limits admit
Chains == {NotChain(d) : d \in ChainDepths}

\* malformed clauses that the server accepts at creation
Malformed ==
  {<<E(op, args)>> : op \in Ops, args \in UNION {[1..n -> Small] : n \in 0..4}}            \* every operand count 0..4
  \cup {<<E(op, <<El(1), Lit(TT)>>)>> : op \in Ops}                                        \* element index out of range
  \cup {<<E(op, <<Lit(TT), El(7)>>)>> : op \in Ops}
  \cup {<<E(op, <<El(0), Lit(TT)>>)>> : op \in Ops}                                        \* refers to itself
  \cup {<<E(op, <<El(1), Lit(TT)>>), E("Not", <<El(0)>>)>> : op \in Ops}                   \* loop of two
  \cup {<<E(op, <<AttrOperand, Lit(TT)>>)>> : op \in Ops}                                  \* attribute operand
  \cup {<<E(op, <<Lit(TT), AttrOperand>>)>> : op \in Ops}
  \cup {<<E(op, <<BadOperand, Lit(TT)>>)>> : op \in Ops}                                   \* undecodable operand
  \cup {<<E("RelatedTo", <<Lit(TT), Lit(TT)>>)>>, <<E("InView", <<Lit(TT)>>)>>, <<E("OfType", <<Lit(TT)>>)>>, <<>>}

OpsCases == Single \cup Nested \cup Chains \cup Malformed
=============================================================================
