----------------------------- MODULE GenCertTrust -----------------------------
EXTENDS MCCertTrust, Json
Emit == PrintT(<<"CASE", ToJson([c |-> c, exp |-> Expected(c)])>>)
=============================================================================
