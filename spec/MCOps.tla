------------------------------- MODULE MCOps -------------------------------
(* C39 operators: one TLC state per clause.  The design check relates the operator definitions to each other    *)
(* (laws that Part 4 states in words), so that a slip in one definition shows up before the real code is judged. *)
EXTENDS Operators
VARIABLE c
Init == c \in OpsCases
Next == UNCHANGED c
Spec == Init /\ [][Next]_c

One(op, a, b) == Expected(<<E(op, <<a, b>>)>>)
Definite(s) == s \subseteq {TT, FF} /\ Cardinality(s) = 1
Laws ==
  IF ~WellFormed(c) THEN TRUE
  ELSE LET e == c[1] ex == Expected(c) IN
    /\ ex # {}
    /\ OpsViol(c, [fail |-> "none", site |-> "", k |-> "ok", t |-> (CHOOSE x \in ex : TRUE).t, v |-> (CHOOSE x \in ex : TRUE).v]) = {}
    /\ (Len(c) = 1 /\ e.op = "GreaterThanOrEqual" /\ Definite(ex) =>
          ex = {Bool(TT \in One("GreaterThan", e.args[1], e.args[2]) \/ TT \in One("Equals", e.args[1], e.args[2]))})
    /\ (Len(c) = 1 /\ e.op = "LessThanOrEqual" /\ Definite(ex) =>
          ex = {Bool(TT \in One("LessThan", e.args[1], e.args[2]) \/ TT \in One("Equals", e.args[1], e.args[2]))})
    /\ (Len(c) = 1 /\ e.op = "Equals" /\ ex = {TT} =>
          /\ One("Equals", e.args[2], e.args[1]) = {TT}
          /\ (Definite(One("LessThan", e.args[1], e.args[2])) => One("LessThan", e.args[1], e.args[2]) = {FF})
          /\ (Definite(One("GreaterThan", e.args[1], e.args[2])) => One("GreaterThan", e.args[1], e.args[2]) = {FF}))
    /\ (Len(c) = 1 /\ e.op = "LessThan" /\ ex = {TT} => One("GreaterThan", e.args[2], e.args[1]) = {TT})
    /\ (Len(c) = 1 /\ e.op = "Between" /\ Definite(ex) /\ Definite(One("GreaterThanOrEqual", e.args[1], e.args[2]))
          /\ Definite(One("LessThanOrEqual", e.args[1], e.args[3])) =>
          ex = {Bool(One("GreaterThanOrEqual", e.args[1], e.args[2]) = {TT} /\ One("LessThanOrEqual", e.args[1], e.args[3]) = {TT})})
    /\ (Len(c) = 1 /\ e.op = "InList" /\ Len(e.args) = 3 =>
          (ex = {TT} <=> (One("Equals", e.args[1], e.args[2]) = {TT} \/ One("Equals", e.args[1], e.args[3]) = {TT})))
    /\ (Len(c) = 1 /\ e.op = "Not" /\ Definite(ex) => Expected(<<E("Not", <<El(1)>>), e>>) = {TT, FF} \ ex)
    /\ (Len(c) = 1 /\ e.op = "And" => ex = Expected(<<E("And", <<e.args[2], e.args[1]>>)>>))
    /\ (Len(c) = 1 /\ e.op = "Or" => ex = Expected(<<E("Or", <<e.args[2], e.args[1]>>)>>))
DesignOK == Laws
=============================================================================
