------------------------------- MODULE MCSubs -------------------------------
(* Model-checking configuration: Subscription.tla driven by SubsDriver with  *)
(* the L2 monitors of SubsProps.tla attached as ghost state.                 *)
EXTENDS SubsDriver

CONSTANT Mons      \* which monitors are attached in this configuration

VARIABLES mon, viol

MP == INSTANCE SubsProps

MInit ==
  /\ DInit
  /\ mon = [m21 |-> MP!M21Init, m22 |-> MP!M22Init, m24 |-> MP!M24Init, m26 |-> MP!M26Init, m27 |-> MP!M27Init, m40 |-> MP!M40Init]
  /\ viol = [c21 |-> {}, c22 |-> {}, c24 |-> {}, c26 |-> {}, c27 |-> {}, c40 |-> {}]

MNext ==
  /\ DNext
  /\ LET e == evt' @@ [site |-> "model"]
         r21 == MP!Mon21Step(mon.m21, e)
         r22 == MP!Mon22Step(mon.m22, e)
         r24 == MP!Mon24Step(mon.m24, e)
         r26 == MP!Mon26Step(mon.m26, e)
         r27 == MP!Mon27Step(mon.m27, e)
         r40 == MP!Mon40Step(mon.m40, e)
     IN /\ mon' = [m21 |-> IF "C21" \in Mons THEN r21.g ELSE mon.m21,
                    m22 |-> IF "C22" \in Mons THEN r22.g ELSE mon.m22,
                    m24 |-> IF "C24" \in Mons THEN r24.g ELSE mon.m24,
                    m26 |-> IF "C26" \in Mons THEN r26.g ELSE mon.m26,
                    m27 |-> IF "C27" \in Mons THEN r27.g ELSE mon.m27,
                    m40 |-> IF "C40" \in Mons THEN r40.g ELSE mon.m40]
        /\ viol' = [c21 |-> IF "C21" \in Mons THEN r21.viol ELSE {},
                     c22 |-> IF "C22" \in Mons THEN r22.viol ELSE {},
                     c24 |-> IF "C24" \in Mons THEN r24.viol ELSE {},
                     c26 |-> IF "C26" \in Mons THEN r26.viol ELSE {},
                     c27 |-> IF "C27" \in Mons THEN r27.viol ELSE {},
                     c40 |-> IF "C40" \in Mons THEN r40.viol ELSE {}]

MSpec == MInit /\ [][MNext]_<<vars, dvars, mon, viol>>

C21 == viol.c21 = {}
C22 == viol.c22 = {}
C24 == viol.c24 = {}
C26 == viol.c26 = {}
C27 == viol.c27 = {}
C40 == viol.c40 = {}
\* the model's clock, response queue and last event do not influence the future except through these
MView == <<subs, reqs, retx, respq, nodeVal, now, depth, nPub, nWrite, nTick, nSub, script, mon, viol>>
=============================================================================
