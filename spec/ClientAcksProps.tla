---------------------------- MODULE ClientAcksProps ----------------------------
(***************************************************************************)
(* L2 monitor of C36 "Each received notification is acknowledged exactly    *)
(* once", over OBSERVATION RECORDS only.                                    *)
(*                                                                          *)
(*   Send  req acks res   a publish call; res = "sent": the request left    *)
(*                        with these acknowledgements (as the server reads  *)
(*                        them), otherwise the call failed before sending   *)
(*   Ok    req sub seq kind  its publish response arrived: notification     *)
(*                        message ("data" / "status") number seq of         *)
(*                        subscription sub, or a keep-alive ("ka") that     *)
(*                        carries the number of the next one                *)
(*   Fail  req res        the request failed (timeout, fault, ...)          *)
(*   End                  end of a history whose last publish succeeded     *)
(*                                                                          *)
(* Ghost: recv = notification messages received, open = acknowledgements    *)
(* travelling with requests not completed yet, conf = how often a number    *)
(* was in a request that succeeded, owed = acknowledgements of failed       *)
(* requests, ka = how often a number was carried by a keep-alive.           *)
(*                                                                          *)
(* A clause that a number is acknowledged more than once gets the suffix    *)
(* ":keepalive-seq" when the surplus is no larger than the number of        *)
(* keep-alive responses that carried this very number (the client treated   *)
(* the keep-alive as a notification message); a surplus beyond that is      *)
(* reported without suffix.  `hard' = some violated clause has no suffix.    *)
(***************************************************************************)
EXTENDS Integers, Sequences, FiniteSets, TLC

M36Init == [recv |-> {}, open |-> <<>>, conf |-> <<>>, owed |-> {}, ka |-> <<>>]

SeqSet(s) == {s[j] : j \in 1..Len(s)}
Key(a) == <<a[1], a[2]>>                       \* JSON arrays and TLA+ tuples alike
Cnt(f, k) == IF k \in DOMAIN f THEN f[k] ELSE 0
Inc(f, S) == [k \in DOMAIN f \cup S |-> Cnt(f, k) + (IF k \in S THEN 1 ELSE 0)]
Times(s, k) == Cardinality({j \in 1..Len(s) : s[j] = k})

\* acknowledging k `n' times in all: is the surplus explained by keep-alives that carried k ?
Due(g, k) == IF k \in g.recv THEN 1 ELSE 0
Soft(g, k, n) == n <= Due(g, k) + Cnt(g.ka, k)
Tag(g, k, n, name) == IF Soft(g, k, n) THEN name \o ":keepalive-seq" ELSE name

Mon36Step(g, e) ==
  LET acks == IF e.ev = "Send" /\ e.res = "sent" THEN [j \in 1..Len(e.acks) |-> Key(e.acks[j])] ELSE <<>>
      aset == SeqSet(acks)
      mine == IF e.ev \in {"Ok", "Fail"} /\ e.req \in DOMAIN g.open THEN g.open[e.req] ELSE {}
      inOpen == UNION {g.open[r] : r \in DOMAIN g.open}
  IN
  CASE e.ev = "Send" /\ e.res = "sent" ->
         [g |-> [g EXCEPT !.open = [r \in DOMAIN g.open \cup {e.req} |-> IF r = e.req THEN aset ELSE g.open[r]],
                          !.owed = @ \ aset],
          viol |-> {Tag(g, k, Cnt(g.conf, k) + Times(acks, k), "ack-twice-in-one-request") : k \in {x \in aset : Times(acks, x) > 1}}
                   \* none is sent twice after a successful send
                   \cup {Tag(g, k, Cnt(g.conf, k) + 1, "ack-sent-again-after-success") : k \in {x \in aset : Cnt(g.conf, x) >= 1}},
          hard |-> (\E k \in aset : Times(acks, k) > 1 /\ ~Soft(g, k, Cnt(g.conf, k) + Times(acks, k)))
                   \/ (\E k \in aset : Cnt(g.conf, k) >= 1 /\ ~Soft(g, k, Cnt(g.conf, k) + 1))]
    [] e.ev = "Ok" ->
         LET g1 == [g EXCEPT !.recv = IF e.kind = "ka" THEN @ ELSE @ \cup {<<e.sub, e.seq>>},
                             !.ka = IF e.kind = "ka" THEN Inc(@, {<<e.sub, e.seq>>}) ELSE @]
         IN [g |-> [g1 EXCEPT !.open = [r \in DOMAIN g.open \ {e.req} |-> g.open[r]],
                              !.conf = Inc(@, mine)],
             \* ... is included in exactly one publish request that the server received
             viol |-> {Tag(g, k, Cnt(g.conf, k) + 1, "acknowledged-twice") : k \in {x \in mine : Cnt(g.conf, x) >= 1}},
             hard |-> \E k \in mine : Cnt(g.conf, k) >= 1 /\ ~Soft(g, k, Cnt(g.conf, k) + 1)]
    [] e.ev = "Fail" ->
         [g |-> [g EXCEPT !.open = [r \in DOMAIN g.open \ {e.req} |-> g.open[r]], !.owed = @ \cup mine],
          viol |-> {}, hard |-> FALSE]
    [] e.ev = "End" ->
         [g |-> g,
          viol |-> \* every notification sequence number received is included in a later publish request
                   (IF (g.recv \ (DOMAIN g.conf \cup inOpen)) # {} THEN {"received-never-acknowledged"} ELSE {})
                   \* acknowledgements of a publish request that failed are sent again with a later one
                   \cup (IF (g.owed \cap g.recv) \ (DOMAIN g.conf \cup inOpen) # {} THEN {"failed-acknowledgements-not-sent-again"} ELSE {}),
          hard |-> (g.recv \ (DOMAIN g.conf \cup inOpen)) # {}]
    [] OTHER -> [g |-> g, viol |-> {}, hard |-> FALSE]

=============================================================================
