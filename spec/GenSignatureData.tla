--------------------------- MODULE GenSignatureData ---------------------------
EXTENDS MCSignatureData, Json
Emit == PrintT(<<"CASE", ToJson([c |-> c, exp |-> [r |-> SigSpec(c), alg |-> Alg(c.pol)]])>>)
=============================================================================
