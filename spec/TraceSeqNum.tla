----------------------------- MODULE TraceSeqNum -----------------------------
(* Judge of C12: feeds the observation records written by the harness through  *)
(* the L2 monitor of SeqNumProps.tla, one TLC state per record.  A Config       *)
(* record starts a case.  After the first violation in a case the rest of the   *)
(* case is not judged.                                                          *)
EXTENDS Integers, Sequences, FiniteSets, SequencesExt, TLC, Json, IOUtils

MP == INSTANCE SeqNumProps

ObsLog == ndJsonDeserialize(IOEnv.OBS)

VARIABLES l, mon, out, dead

TInit == l = 1 /\ mon = MP!SnInit /\ out = <<>> /\ dead = FALSE

TNext ==
  \/ /\ l <= Len(ObsLog)
     /\ LET e == ObsLog[l]
            new == e.ev = "Config"
            g == IF new THEN MP!SnInit ELSE mon
            dd == IF new THEN FALSE ELSE dead
            r == MP!SnStep(g, e)
            s == SetToSeq(r.viol)
        IN /\ mon' = r.g
           /\ out' = IF dd THEN out ELSE out \o [j \in 1..Len(s) |-> [case |-> e.case, i |-> e.i, prop |-> "C12", clause |-> s[j]]]
           /\ dead' = (dd \/ r.viol # {})
     /\ l' = l + 1
  \/ /\ l = Len(ObsLog) + 1
     /\ ndJsonSerialize(IOEnv.VERDICT, out)
     /\ l' = l + 1
     /\ UNCHANGED <<mon, out, dead>>

TSpec == TInit /\ [][TNext]_<<l, mon, out, dead>>
=============================================================================
