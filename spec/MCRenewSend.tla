----------------------------- MODULE MCRenewSend -----------------------------
EXTENDS RenewSend
CONSTANT MaxDepth
VARIABLES mon, viol, depth
MP == INSTANCE RenewProps
MInit == SInit /\ mon = MP!MInit /\ viol = {} /\ depth = 0
MNext == /\ depth < MaxDepth /\ depth' = depth + 1 /\ NextS
         /\ LET r == MP!Mon14Step(mon, evt' @@ [site |-> ""]) IN mon' = r.g /\ viol' = r.viol
MSpec == MInit /\ [][MNext]_<<allvars, mon, viol, depth>>
C14 == viol = {}
MView == <<c, s, c2s, s2c, respq, nSent, nRenew, issued, pc, lock, waitq, due, outq, inbox, owner, mon, viol, depth>>
=============================================================================
