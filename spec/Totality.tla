------------------------------ MODULE Totality ------------------------------
(***************************************************************************)
(* C09  Secure-channel receive path is total on arbitrary peer bytes.       *)
(*                                                                          *)
(* `Receive' is the receiving side of a secure channel written as a TOTAL   *)
(* decision procedure over abstract chunks: an abstract chunk says, field   *)
(* by field, in which way the bytes a peer sent depart from a well-formed   *)
(* OPN / MSG / CLO chunk (the malformed-shape classes below); the receiver  *)
(* state says whether the channel holds derived keys, an application        *)
(* certificate and a private key.  Every path ends in [class |-> "chunk"]   *)
(* or [class |-> "error", sec |-> is it a security error]: there is no      *)
(* third outcome, which is what "never panics" means.  The statement names  *)
(* the shapes that must be reported as SECURITY errors (MustBeSecurity):    *)
(* malformed / missing certificates, cipher texts of wrong length, messages *)
(* shorter than their signature, bogus padding lengths.                     *)
(*                                                                          *)
(* Function-like pattern: TLC enumerates shape x chunk kind x role x policy *)
(* x mode x key sizes, checks the decision procedure (DesignOK) and prints  *)
(* the expected class; the harness builds each shape from the parts of a    *)
(* valid chunk with real crypto, feeds it (and seeded random mutations of   *)
(* it) to verify_and_remove_security; `TotalViol' judges.                   *)
(***************************************************************************)
EXTENDS Integers, Sequences, FiniteSets, TLC

CONSTANTS KeyPairs,     \* <<sender key bits, receiver key bits>> of the OPN cases
          PadKeyPairs,  \* key pairs of the OPN cases of the padding size family (must reach a receiver key above 2048 bits)
          NRand         \* seeded random mutations per case

Policies == {"Basic128Rsa15", "Basic256", "Basic256Sha256", "Aes128Sha256RsaOaep", "Aes256Sha256RsaPss"}
KeyRange(p) == IF p \in {"Basic128Rsa15", "Basic256"} THEN 1024..2048 ELSE 2048..4096
SymSig(p) == CASE p = "None" -> 0 [] p \in {"Basic128Rsa15", "Basic256"} -> 20 [] OTHER -> 32
Roles == {"server", "client"}      \* role of the RECEIVING channel

Secured(c) == c.pol # "None" /\ c.mode # "None"
Encrypted(c) == Secured(c) /\ (c.kind = "opn" \/ c.mode = "SignAndEncrypt")

-----------------------------------------------------------------------------
(* abstract chunks: how each part departs from the well-formed chunk          *)
Valid == [hdr |-> "ok", sechdr |-> "ok", size |-> "ok", uri |-> "policy", cert |-> "valid", thumb |-> "match", ct |-> "ok",
          sigfit |-> "ok", pad |-> "ok", mac |-> "ok", token |-> "ok"]
\* the receiving channel
Rx == [keys |-> TRUE, owncert |-> TRUE, ownkey |-> TRUE]

\* malformed-shape classes: name -> (chunk, receiver)
Shape(s) ==
  CASE s = "valid" -> <<Valid, Rx>>
    [] s = "hdr-truncated" -> <<[Valid EXCEPT !.hdr = "truncated"], Rx>>
    [] s = "sechdr-truncated" -> <<[Valid EXCEPT !.sechdr = "truncated"], Rx>>
    [] s = "size-larger" -> <<[Valid EXCEPT !.size = "larger"], Rx>>
    [] s = "size-smaller" -> <<[Valid EXCEPT !.size = "smaller"], Rx>>
    [] s = "uri-unknown" -> <<[Valid EXCEPT !.uri = "unknown"], Rx>>
    [] s = "uri-null" -> <<[Valid EXCEPT !.uri = "null"], Rx>>
    [] s = "cert-null" -> <<[Valid EXCEPT !.cert = "null"], Rx>>
    [] s = "cert-empty" -> <<[Valid EXCEPT !.cert = "empty"], Rx>>
    [] s = "cert-garbage" -> <<[Valid EXCEPT !.cert = "garbage"], Rx>>
    [] s = "cert-truncated" -> <<[Valid EXCEPT !.cert = "truncated"], Rx>>
    [] s = "thumb-null" -> <<[Valid EXCEPT !.thumb = "null"], Rx>>
    [] s = "thumb-len19" -> <<[Valid EXCEPT !.thumb = "wrong-length"], Rx>>
    [] s = "thumb-len21" -> <<[Valid EXCEPT !.thumb = "wrong-length"], Rx>>
    [] s = "thumb-other" -> <<[Valid EXCEPT !.thumb = "other"], Rx>>
    [] s = "ct-plus1" -> <<[Valid EXCEPT !.ct = "not-block-multiple"], Rx>>
    [] s = "ct-minus1" -> <<[Valid EXCEPT !.ct = "not-block-multiple"], Rx>>
    [] s = "ct-none" -> <<[Valid EXCEPT !.ct = "none"], Rx>>
    [] s = "plain-shorter-than-sig" -> <<[Valid EXCEPT !.sigfit = "short"], Rx>>
    [] s = "shorter-than-sig" -> <<[Valid EXCEPT !.sigfit = "short"], Rx>>
    [] s = "pad-too-large" -> <<[Valid EXCEPT !.pad = "too-large"], Rx>>
    [] s = "pad-inconsistent" -> <<[Valid EXCEPT !.pad = "inconsistent"], Rx>>
    [] s = "sig-foreign" -> <<[Valid EXCEPT !.mac = "foreign"], Rx>>
    [] s = "mac-foreign" -> <<[Valid EXCEPT !.mac = "foreign"], Rx>>
    [] s = "token-other" -> <<[Valid EXCEPT !.token = "other"], Rx>>
    [] s = "before-keys" -> <<Valid, [Rx EXCEPT !.keys = FALSE]>>
    [] s = "no-own-cert" -> <<Valid, [Rx EXCEPT !.owncert = FALSE, !.ownkey = FALSE]>>
    [] s = "no-own-key" -> <<Valid, [Rx EXCEPT !.ownkey = FALSE]>>

CommonShapes == {"valid", "hdr-truncated", "sechdr-truncated", "size-larger", "size-smaller"}
OpnShapes == {"uri-unknown", "uri-null", "cert-null", "cert-empty", "cert-garbage", "cert-truncated", "thumb-null", "thumb-len19",
              "thumb-len21", "thumb-other", "ct-plus1", "ct-minus1", "ct-none", "plain-shorter-than-sig", "pad-too-large",
              "pad-inconsistent", "sig-foreign", "no-own-cert", "no-own-key"}
SymShapes == {"shorter-than-sig", "mac-foreign", "token-other", "before-keys"}
SymEncShapes == {"ct-plus1", "ct-minus1", "pad-too-large", "pad-inconsistent"}

(* The boundary family of "bogus padding lengths": shape "pad-size".  The chunk is CORRECTLY signed and encrypted over a     *)
(* hand-built plain text in which every byte between the sequence header and the signature has the value of the padding   *)
(* size byte, so the only question is how far the announced padding reaches.  With `end' = the number of bytes in front   *)
(* of the signature (message header and security header included) and sb = the number of padding size bytes (2 for a      *)
(* receiver key above 2048 bits - ExtraPaddingSize -, else 1), the padding starts at  end - size - sb.                    *)
SizeBytes(c) == IF c.kind = "opn" /\ c.rbits > 2048 THEN 2 ELSE 1
PadSizesAll == {"zero", "one", "ordinary", "end-2", "end-1", "end", "end+1", "max"}
\* an OPN chunk to a key of at most 2048 bits has one size byte (<= 255) and far more than 255 bytes in front of the signature:
\* the sizes relative to `end' do not exist there, and 255 bytes of one value in front of the size byte ARE padding
PadSizes(c) == IF c.kind = "opn" /\ SizeBytes(c) = 1 THEN {"zero", "one", "ordinary"} ELSE PadSizesAll
\* where the announced padding starts, relative to the start of the chunk (only the sign matters for "max")
PadStart(c) ==
  CASE c.psz = "end-2" -> 2 - SizeBytes(c)
    [] c.psz = "end-1" -> 1 - SizeBytes(c)
    [] c.psz = "end" -> 0 - SizeBytes(c)
    [] c.psz = "end+1" -> (0 - 1) - SizeBytes(c)
    [] c.psz = "max" -> 0 - 1000
    [] OTHER -> 1000                                    \* zero, one, ordinary: behind the sequence header
PadClass(c) ==
  IF c.psz \in {"zero", "one", "ordinary"} THEN "ok"
  ELSE IF PadStart(c) >= 0 THEN "reaches-into-the-headers" ELSE "starts-in-front-of-the-chunk"
BogusPadSize(c) == c.shape = "pad-size" /\ PadClass(c) # "ok"

\* the shapes that exist for a configuration
Shapes(c) ==
  CommonShapes
  \cup (IF ~Secured(c) THEN {}
        ELSE IF c.kind = "opn" THEN OpnShapes
        ELSE SymShapes \cup (IF c.mode = "SignAndEncrypt" THEN SymEncShapes ELSE {}))
  \cup (IF Encrypted(c) THEN {"pad-size"} ELSE {})

\* the statement: these are reported as security errors
MustBeSecurity == {"cert-null", "cert-empty", "cert-garbage", "cert-truncated", "ct-plus1", "ct-minus1", "ct-none",
                   "plain-shorter-than-sig", "shorter-than-sig", "pad-too-large", "pad-inconsistent"}
MustSec(c) == c.shape \in MustBeSecurity \/ BogusPadSize(c)

-----------------------------------------------------------------------------
(* the receiver as a total decision procedure *)
Chunk == [class |-> "chunk", sec |-> FALSE, why |-> ""]
Err(sec, why) == [class |-> "error", sec |-> sec, why |-> why]

Receive(c, ch, rx) ==
  IF ch.hdr # "ok" THEN Err(FALSE, "message-header-undecodable")
  ELSE IF ch.sechdr # "ok" THEN Err(FALSE, "security-header-undecodable")
  ELSE IF c.kind = "opn" /\ Secured(c) /\ ch.thumb = "wrong-length" THEN Err(FALSE, "security-header-undecodable")
  ELSE IF ch.size # "ok" THEN Err(FALSE, "declared-size-differs")
  ELSE IF c.kind = "opn"
  THEN IF ~Secured(c) THEN Chunk                                         \* policy None: nothing to verify
       ELSE IF ch.uri # "policy" THEN Err(TRUE, "policy-rejected")
       ELSE IF ch.cert # "valid" THEN Err(TRUE, "sender-certificate")
       ELSE IF ~rx.owncert \/ ~rx.ownkey THEN Err(TRUE, "no-own-certificate-or-key")
       ELSE IF ch.thumb # "match" THEN Err(TRUE, "receiver-thumbprint")
       ELSE IF ch.ct # "ok" THEN Err(TRUE, "cipher-text-length")
       ELSE IF ch.sigfit # "ok" THEN Err(TRUE, "shorter-than-signature")
       ELSE IF ch.mac # "ok" THEN Err(TRUE, "signature")
       ELSE IF ch.pad # "ok" THEN Err(TRUE, "padding")
       ELSE Chunk
  ELSE IF ~Secured(c) THEN Chunk
       ELSE IF ~rx.keys THEN Err(TRUE, "no-keys")
       ELSE IF ch.sigfit # "ok" THEN Err(TRUE, "shorter-than-signature")
       ELSE IF Encrypted(c) /\ ch.ct # "ok" THEN Err(TRUE, "cipher-text-length")
       ELSE IF ch.mac # "ok" THEN Err(TRUE, "signature")
       ELSE IF Encrypted(c) /\ ch.pad # "ok" THEN Err(TRUE, "padding")
       ELSE Chunk                                                         \* the token id is the business of the layer above

Expected(c) ==
  IF c.shape = "pad-size" THEN Receive(c, [Valid EXCEPT !.pad = PadClass(c)], Rx)
  ELSE Receive(c, Shape(c.shape)[1], Shape(c.shape)[2])

DesignHolds(c) ==
  LET r == Expected(c)
  IN /\ r.class \in {"chunk", "error"}
     /\ c.shape = "valid" => r.class = "chunk"
     /\ MustSec(c) => r.class = "error" /\ r.sec
     /\ c.shape = "pad-size" /\ ~BogusPadSize(c) => r.class = "chunk"       \* a padding that ends behind the sequence header is padding
     /\ c.shape \notin {"valid", "token-other", "pad-size"} => r.class = "error"

-----------------------------------------------------------------------------
(* L2: the judge *)
SecurityCodes == {"BadSecurityChecksFailed", "BadCertificateInvalid", "BadSecurityPolicyRejected", "BadNoValidCertificates",
                  "BadSecurityModeRejected", "BadSecureChannelTokenUnknown", "BadSecureChannelIdInvalid", "BadCertificateUntrusted",
                  "BadCertificateUseNotAllowed", "BadCertificateTimeInvalid", "BadCertificateRevoked", "BadNonceInvalid",
                  "BadSecureChannelClosed", "BadIdentityTokenInvalid", "BadIdentityTokenRejected", "BadUserAccessDenied"}

ShapeName(c) == IF c.shape = "pad-size" THEN "pad-size=" \o c.psz ELSE c.shape

TotalViol(e) ==
  LET c == e.c
      r == e.r
  IN IF r.fail = "setup" THEN {"case-not-built:" \o ShapeName(c) \o ":" \o r.site}
     ELSE (IF r.fail # "none" THEN {"receive-not-total:" \o ShapeName(c) \o ":" \o r.site} ELSE {})
     \cup {"receive-not-total:random-mutation:" \o r.rand.sites[i] : i \in 1..Len(r.rand.sites)}
     \cup (IF r.rand.panic > 0 /\ Len(r.rand.sites) = 0 THEN {"receive-not-total:random-mutation"} ELSE {})
     \cup (IF r.fail = "none" /\ r.class \notin {"chunk", "error"} THEN {"neither-chunk-nor-error:" \o c.shape} ELSE {})
     \cup (IF r.fail = "none" /\ c.shape = "valid" /\ r.class # "chunk" THEN {"baseline-valid-chunk-rejected:" \o r.code} ELSE {})
     \cup (IF r.fail = "none" /\ MustSec(c) /\ r.class = "chunk" THEN {"malformed-chunk-accepted:" \o ShapeName(c)} ELSE {})
     \cup (IF r.fail = "none" /\ MustSec(c) /\ r.class = "error" /\ r.code \notin SecurityCodes
           THEN {"not-reported-as-security-error:" \o ShapeName(c) \o ":" \o r.code} ELSE {})
=============================================================================
