------------------------------- MODULE MCLike -------------------------------
(* C39 LIKE: one TLC state per pattern; the set of strings the specified matcher accepts must be the language   *)
(* of the pattern.  With UseDev the matcher of the pinned tree ("_" written as regex "?") takes its place: TLC   *)
(* must then find a counterexample (the known finding is real in the model as well).                            *)
EXTENDS Like
UseDev == FALSE
VARIABLE c
Init == c \in Patterns
Next == UNCHANGED c
Spec == Init /\ [][Next]_c
DesignOK == (IF UseDev THEN DevStr(c) ELSE SpecStr(c)) = LangStr(c)
=============================================================================
