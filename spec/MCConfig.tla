------------------------------ MODULE MCConfig ------------------------------
(* C41: the case space.  Level 1 states name a family and the first coefficient of a row, level 2 states are the     *)
(* cases (so that TLC's workers build the rows in parallel).  Families:                                               *)
(*   "pair"  : rows <<i, j>> of the orthogonal array over Z_P, string slots over StrOf(Wide): every pair of values   *)
(*             of every two slots                                                                                     *)
(*   "sweep" : rows <<i, 1>> over Z_PS with the whole string table: every string class at every string slot          *)
(*   "mut"   : the first NBase rows <<i, 1>> with one change (the ones is_valid() rejects, and the valid corner       *)
(*             configurations)                                                                                        *)
(*   "sim"   : (simulation) rows of random polynomials of degree 3 over Z_PS with the whole string table             *)
(* TLC checks on every case: the construction yields a valid configuration exactly where it claims to                 *)
(* (ConstructionOK), and the specified save / load satisfies the property (DesignOK).                                 *)
EXTENDS Config
CONSTANTS P,        \* prime >= number of slots and >= the largest domain of the pair family
          PS,       \* the same for the whole string table
          Wide,     \* pair family over the whole string table
          Fams,     \* families to generate
          NBase
VARIABLE c

Kinds == {"client", "server"}
Case(kind, fam, wide, co, p, m) ==
  LET base == CfgOfRow(kind, wide, co, p)
  IN [lvl |-> 2, kind |-> kind, cfg |-> IF m = "-" THEN base ELSE Mut(base, m), src |-> [fam |-> fam, co |-> co, p |-> p, m |-> m]]

ASSUME /\ Len(SrvColsN) <= P /\ Len(CliColsN) <= P /\ Len(StrOf(Wide)) + 2 <= P
       /\ MaxPacked(SrvColsN) <= P /\ MaxPacked(CliColsN) <= P
       /\ Len(SrvColsN) <= PS /\ Len(CliColsN) <= PS /\ Len(AllStr) + 2 <= PS
       /\ \A q \in {P, PS} : \A d \in 2..(q - 1) : q % d # 0

Init == c \in {[lvl |-> 1, fam |-> f, kind |-> k, i |-> i] : f \in Fams \cap {"pair"}, k \in Kinds, i \in 0..(P - 1)}
              \cup {[lvl |-> 1, fam |-> f, kind |-> k, i |-> i] : f \in Fams \cap {"sweep"}, k \in Kinds, i \in 0..(PS - 1)}
              \cup {[lvl |-> 1, fam |-> f, kind |-> k, i |-> i] : f \in Fams \cap {"mut"}, k \in Kinds, i \in 0..(NBase - 1)}
Next ==
  /\ c.lvl = 1
  /\ \/ c.fam = "pair" /\ \E j \in 0..(P - 1) : c' = Case(c.kind, "pair", Wide, <<c.i, j>>, P, "-")
     \/ c.fam = "sweep" /\ c' = Case(c.kind, "sweep", TRUE, <<c.i, 1>>, PS, "-")
     \/ c.fam = "mut" /\ \E m \in MutsOf(c.kind) : c' = Case(c.kind, "mut", TRUE, <<c.i, 1>>, PS, m)
Spec == Init /\ [][Next]_c

(* simulation: one random row per step.  The sets depend on the state on purpose: TLC evaluates an expression without *)
(* variables once and for all, which would make every step draw the same row.                                          *)
Z == 0..(PS - 1)
ZOf(s) == IF s.lvl >= 0 THEN Z ELSE {}
KindsOf(s) == IF s.lvl >= 0 THEN Kinds ELSE {}
SimInit == c = [lvl |-> 0]
SimNext == \E k \in {RandomElement(KindsOf(c))} :
             \E co \in {<<RandomElement(ZOf(c)), RandomElement(ZOf(c)), RandomElement(ZOf(c)), RandomElement(ZOf(c))>>} :
               c' = Case(k, "sim", TRUE, co, PS, "-")
SimSpec == SimInit /\ [][SimNext]_c

ConstructionOK == c.lvl = 2 => (Valid(c.cfg) <=> (c.src.m = "-" \/ MutStaysValid(c.kind, c.src.m)))
DesignOK == c.lvl = 2 => RtViol([case |-> 0, i |-> 1, r |-> SpecRt(c.cfg)]) = {}
(* the model of the pinned tree (SpecRtDev) refuses to save some valid configurations (a path that is not UTF-8): expected *)
(* to be violated; such a refusal is a departure from the specified save, not a violation of the property (nothing is    *)
(* written)                                                                                                              *)
DevOK == (c.lvl = 2 /\ Valid(c.cfg)) => SpecRtDev(c.cfg).saved
=============================================================================
