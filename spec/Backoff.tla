------------------------------- MODULE Backoff -------------------------------
(***************************************************************************)
(* C37  Reconnect back-off follows its policy and never overflows.          *)
(*                                                                          *)
(* Function-like.  A retry policy is (initial delay, maximum delay, retry   *)
(* limit); the back-off made from it is asked `n' times for its next delay. *)
(* Durations are exact nanosecond counts (BigDigits), taken from a line of  *)
(* named points that contains 0, 1 ns, ordinary delays, Duration::MAX / 2   *)
(* (the last value whose double still fits), Duration::MAX / 2 + 1 ns (the  *)
(* first whose double does not) and Duration::MAX.  Retry limits and the    *)
(* number of delays already produced are BigNat pairs (u32).                *)
(*                                                                          *)
(*   L2  BackoffViol(e)  the property, on what the real iterator returned   *)
(*   L1  ExpSeq(c)       the sequence the corrected design produces         *)
(***************************************************************************)
EXTENDS Integers, Sequences, FiniteSets, TLC, BigNat, BigDigits

CONSTANT Wide      \* TRUE: the larger set of duration points and retry limits (thorough tier)

\* std::time::Duration::MAX = u64::MAX s + 999 999 999 ns = 2^64 * 10^9 - 1 ns
DurMax  == DPred(DMul(DShift(DShift(DPow2(64))), 10))
Zero    == <<>>
Ns1     == <<1>>
Ms500   == <<0, 0, 5>>                    \* SessionRetryPolicy::DEFAULT_INITIAL_SLEEP_MS
S30     == <<0, 0, 300>>                  \* SessionRetryPolicy::DEFAULT_MAX_SLEEP_MS
HalfMax == DHalf(DurMax)                  \* 2 * HalfMax = DurMax - 1 ns
HalfMax1 == DAdd(HalfMax, Ns1)            \* 2 * HalfMax1 = DurMax + 1 ns : does not fit
DurMaxM1 == DPred(DurMax)

ASSUME /\ DAdd(DDbl(HalfMax), Ns1) = DurMax
       /\ DDbl(HalfMax1) = DAdd(DurMax, Ns1)
       /\ DurMax = <<9999, 9999, 6159, 9551, 7370, 7440, 8446, 1>>           \* 18446744073709551615.999999999 s
       /\ HalfMax = <<9999, 9999, 8079, 4775, 3685, 3720, 9223>>
       /\ \A p \in {DurMax, HalfMax, HalfMax1, DurMaxM1, Ms500, S30, Ns1, Zero} : DWellFormed(p)
       /\ DLt(HalfMax, HalfMax1) /\ DLt(HalfMax1, DurMaxM1) /\ DLt(DurMaxM1, DurMax) /\ DLt(S30, HalfMax)

Us1     == <<1000>>
S1      == <<0, 0, 10>>
Quarter == DHalf(HalfMax)
HalfMaxM1 == DPred(HalfMax)
Points == {Zero, Ns1, Ms500, S30, HalfMax, HalfMax1, DurMaxM1, DurMax}
          \cup (IF Wide THEN {Us1, S1, Quarter, HalfMaxM1} ELSE {})

NoLimit == [k |-> "none", v |-> Big(0)]
Lim(n) == [k |-> "some", v |-> n]
U32Max == BigU32Max
U32MaxM2 == <<65535, 65533>>
Limits == {NoLimit, Lim(Big(0)), Lim(Big(1)), Lim(Big(2)), Lim(Big(3)), Lim(Big(10)), Lim(Big(70)), Lim(U32Max)}
          \cup (IF Wide THEN {Lim(Big(5)), Lim(Big(69)), Lim(Big(71)), Lim(<<65535, 65534>>)} ELSE {})

\* the delay a back-off has reached after very many delays: the maximum (0 stays 0)
Settled(init, max) == IF init = Zero THEN Zero ELSE max

Calls(lim, from) == IF from # Big(0) THEN 6
                    ELSE IF lim.k = "some" /\ BLe(lim.v, Big(70)) THEN lim.v[2] + 2 ELSE 70

\* from = number of delays already produced (0: a fresh back-off; u32::MAX - 2: the counter is about to run out)
RawCases == {[init |-> i, max |-> m, limit |-> l, from |-> f, cur |-> IF f = Big(0) THEN i ELSE Settled(i, m), n |-> Calls(l, f)]
              : i \in Points, m \in Points, l \in Limits, f \in {Big(0), U32MaxM2}}
\* more delays produced than the limit allows: unreachable
Cases == {c \in RawCases : ~(c.limit.k = "some" /\ BLt(c.limit.v, c.from))}

-----------------------------------------------------------------------------
(* the statement *)

\* delays still to come: the retry limit less what was produced; "many" when that exceeds the calls made
Remaining(c) ==
  IF c.limit.k = "none" THEN c.n
  ELSE IF BLe(BAdd(c.from, Big(c.n)), c.limit.v) THEN c.n
  ELSE \* limit - from < n : small
       CHOOSE r \in 0..c.n : BEq(BAdd(c.from, Big(r)), c.limit.v)

Somes(s) == {j \in 1..Len(s) : s[j].k = "some"}

BackoffViol(e) ==
  LET c == e.c
      r == e.r
      s == r.seq
      m == Remaining(c)
  IN
  {"fail:" \o r.site : x \in IF r.fail # "none" THEN {1} ELSE {}}              \* producing the sequence never panics
  \cup IF r.fail # "none" THEN {}
  ELSE (IF Len(s) # c.n \/ Somes(s) # 1..m THEN {"wrong-number-of-delays"} ELSE {})   \* exactly its retry limit of delays
       \cup (IF Len(s) >= 1 /\ s[1].k = "some" /\ s[1].d # c.cur THEN {"first-delay-not-initial"} ELSE {})
       \cup (IF \E j \in 1..(Len(s) - 1) : s[j].k = "some" /\ s[j + 1].k = "some" /\ s[j + 1].d # DMin(c.max, DDbl(s[j].d))
             THEN {"delay-not-double-capped-at-maximum"} ELSE {})

-----------------------------------------------------------------------------
(* the specified iterator *)
RECURSIVE ExpFrom(_, _, _, _)
ExpFrom(cur, max, left, calls) ==
  IF calls = 0 THEN <<>>
  ELSE IF left = 0 THEN <<[k |-> "none", d |-> <<>>]>> \o ExpFrom(cur, max, 0, calls - 1)
  ELSE <<[k |-> "some", d |-> cur]>> \o ExpFrom(DMin(max, DDbl(cur)), max, left - 1, calls - 1)

ExpSeq(c) == [fail |-> "none", site |-> "", seq |-> ExpFrom(c.cur, c.max, Remaining(c), c.n)]
=============================================================================
