------------------------------- MODULE GenLike -------------------------------
EXTENDS MCLike, Json, SequencesExt
AllStrSeq == SetToSeq({Str(s) : s \in AllStrs})
Emit == LET L == LangStr(c) IN
        PrintT(<<"CASE", ToJson([c |-> [kind |-> "like", toks |-> c, pat |-> Str(c), strs |-> AllStrSeq],
                                 exp |-> [matched |-> SelectSeq(AllStrSeq, LAMBDA x : x \in L)]])>>)
=============================================================================
