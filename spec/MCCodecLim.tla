----------------------------- MODULE MCCodecLim -----------------------------
(* one TLC state per case of the C03 decision table; the specified decoder must decide like the table *)
EXTENDS CodecLim
VARIABLE c
Init == c \in AllCases
Next == UNCHANGED c
Spec == Init /\ [][Next]_c
Small(x) == SegLen(x.segs) <= 400
DesignOK == (c.con # "chunk" /\ Small(c)) =>
               LET s == DecRoot(c.root, Expand(c.segs), OfOpts(c.opts)) IN
               /\ s.ok <=> Acc(c)
               /\ s.pk <= AllocBound(OfOpts(c.opts), SegLen(c.segs), ElemBytes)
=============================================================================
