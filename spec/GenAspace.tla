------------------------------ MODULE GenAspace ------------------------------
EXTENDS AspaceDriver, Json
VARIABLES hist
GInit == DInit /\ hist = <<>>
GNext == DNext /\ hist' = Append(hist, evt')
GSpec == GInit /\ [][GNext]_<<vars, dvars, hist>>
Emit == Done => PrintT(<<"CASE", ToJson(hist)>>)
=============================================================================
