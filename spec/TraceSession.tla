----------------------------- MODULE TraceSession -----------------------------
(* Judge: the observation records of the harness (one per request made on the real server) go through the *)
(* L2 monitors of SessionProps, one TLC state per record; cases are separated by i = 1.                    *)
EXTENDS SessionProps, SequencesExt, Json, IOUtils
CONSTANT Mons
Obs == ndJsonDeserialize(IOEnv.OBS)
VARIABLES l, mon, out, dead
Fresh == [m19 |-> M19Init, m20 |-> M20Init]
TInit == l = 1 /\ mon = Fresh /\ out = <<>> /\ dead = {}
Verdicts(e, prop, vs, dd) ==
  IF prop \in dd THEN <<>>
  ELSE LET s == SetToSeq(vs) IN [j \in 1..Len(s) |-> [case |-> e.case, i |-> e.i, prop |-> prop, clause |-> s[j]]]
TNext ==
  \/ /\ l <= Len(Obs)
     /\ LET e == Obs[l]
            g == IF e.i = 1 THEN Fresh ELSE mon
            dd == IF e.i = 1 THEN {} ELSE dead
            r19 == IF "C19" \in Mons THEN Mon19Step(g.m19, e) ELSE [g |-> g.m19, viol |-> {}]
            r20 == IF "C20" \in Mons THEN Mon20Step(g.m20, e) ELSE [g |-> g.m20, viol |-> {}]
        IN /\ mon' = [m19 |-> r19.g, m20 |-> r20.g]
           /\ out' = out \o Verdicts(e, "C19", r19.viol, dd) \o Verdicts(e, "C20", r20.viol, dd)
           \* after the first violation of a property in a case the rest of the case is not judged for it
           /\ dead' = dd \cup (IF r19.viol # {} THEN {"C19"} ELSE {}) \cup (IF r20.viol # {} THEN {"C20"} ELSE {})
     /\ l' = l + 1
  \/ /\ l = Len(Obs) + 1 /\ ndJsonSerialize(IOEnv.VERDICT, out) /\ l' = l + 1 /\ UNCHANGED <<mon, out, dead>>
TSpec == TInit /\ [][TNext]_<<l, mon, out, dead>>
=============================================================================
