------------------------------- MODULE BigNat -------------------------------
(* Naturals beyond TLC's 32-bit integers as pairs <<hi, lo>> = hi * 65536 + lo *)
EXTENDS Integers
B == 65536
Big(n) == <<n \div B, n % B>>                \* for n < 2^31
BigU32Max == <<65535, 65535>>
BLe(a, b) == a[1] < b[1] \/ (a[1] = b[1] /\ a[2] <= b[2])
BLt(a, b) == a[1] < b[1] \/ (a[1] = b[1] /\ a[2] < b[2])
BEq(a, b) == a[1] = b[1] /\ a[2] = b[2]
BNorm(a) == <<a[1] + a[2] \div B, a[2] % B>>
BMul(a, k) == BNorm(<<a[1] * k, a[2] * k>>)  \* small k
BAdd(a, b) == BNorm(<<a[1] + b[1], a[2] + b[2]>>)
BMax(a, b) == IF BLe(a, b) THEN b ELSE a
BMin(a, b) == IF BLe(a, b) THEN a ELSE b
=============================================================================
