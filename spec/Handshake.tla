------------------------------ MODULE Handshake ------------------------------
(***************************************************************************)
(* L1 specification of one server connection's frame processing:            *)
(*   server/comms/tcp_transport.rs (reading task: wait_for_hello,            *)
(*   process_hello, process_chunk, process_final_chunk) and                  *)
(*   server/comms/secure_channel_service.rs.                                 *)
(* A frame is what the codec yields: HEL, or a chunk of type OPN/MSG/CLO     *)
(* with a final flag F (final), C (intermediate) or A (abort).               *)
(* Every action produces the observation record of the harness: the          *)
(* responses queued for the writer, the transport state afterwards and the   *)
(* number / bytes of pending chunks.                                         *)
(***************************************************************************)
EXTENDS Integers, Sequences, FiniteSets, TLC

CONSTANTS
  MaxChunks,        \* negotiated max chunk count (0 = no limit)
  MaxMsg,           \* negotiated max message size in abstract bytes (0 = no limit)
  ChunkBytes,       \* size of every abstract chunk
  DevMsgBeforeOpen, \* a MSG is dispatched although no OpenSecureChannel was ever issued
  DevNoChunkLimit   \* pending chunks are never counted

VARIABLES tstate, issued, pending, evt,
          pmsg      \* the pending chunks are the intermediate chunks of ONE service request (they reassemble with a final MSG chunk)
vars == <<tstate, issued, pending, evt, pmsg>>

Init == tstate = "WaitingHello" /\ issued = FALSE /\ pending = 0 /\ evt = [ev |-> "Init"] /\ pmsg = FALSE

Obs(kind, fl, svc, fed, out, err) ==
  [ev |-> "Frame", kind |-> kind, fl |-> fl, svc |-> svc, fed |-> fed, out |-> out, err |-> err, fail |-> "none",
   state |-> tstate', pend |-> pending', bytes |-> pending' * ChunkBytes,
   sz |-> IF kind = "HEL" THEN 0 ELSE ChunkBytes]      \* size of the frame (not compared: a single-chunk message is smaller)

Finish(kind, fl, svc, err) ==
  /\ tstate' = "Finished" /\ UNCHANGED <<issued, pmsg>>
  /\ pending' = IF fl = "F" /\ tstate = "Process" /\ kind # "HEL" THEN 0 ELSE pending     \* a final chunk drains the pending list before anything can fail
  /\ evt' = Obs(kind, fl, svc, TRUE, <<>>, err)

\* kind in {"HEL", "OPNI", "OPNR", "MSG", "MSGS", "CLO"}; fl in {"F", "C", "A"}; svc in {"GetEndpoints", "Read", "none"}
\* MSGS = a MSG whose chunk header carries a channel id that this connection never issued (a stale id of an earlier
\* connection): before an OpenSecureChannel it is refused like any MSG, afterwards it fails the channel id validation.
Frame(kind, fl, svc) ==
  IF tstate = "Finished"
  THEN /\ UNCHANGED <<tstate, issued, pending, pmsg>>                \* the socket is closed: nothing is read any more
       /\ evt' = Obs(kind, fl, svc, FALSE, <<>>, "")
  ELSE IF tstate = "WaitingHello"
  THEN IF kind = "HEL"
       THEN /\ tstate' = "Process" /\ UNCHANGED <<issued, pending, pmsg>>
            /\ evt' = Obs(kind, fl, svc, TRUE, <<"ACK">>, "")
       ELSE Finish(kind, fl, svc, "error")
  ELSE \* Process
  IF kind = "HEL" THEN Finish(kind, fl, svc, "error")
  ELSE IF fl = "A"
  THEN /\ pending' = 0 /\ UNCHANGED <<tstate, issued, pmsg>> /\ evt' = Obs(kind, fl, svc, TRUE, <<>>, "")
  ELSE IF fl = "C"
  THEN LET over == ~DevNoChunkLimit /\ ((MaxChunks > 0 /\ pending + 1 > MaxChunks) \/ (MaxMsg > 0 /\ (pending + 1) * ChunkBytes > MaxMsg))
       IN IF over THEN Finish(kind, fl, svc, "error")
          ELSE /\ pending' = pending + 1 /\ UNCHANGED <<tstate, issued>> /\ evt' = Obs(kind, fl, svc, TRUE, <<>>, "")
               /\ pmsg' = ((pending = 0 \/ pmsg) /\ kind = "MSG")
  ELSE \* final chunk: the message is assembled and dispatched by its chunk type
  LET over == ~DevNoChunkLimit /\ ((MaxChunks > 0 /\ pending + 1 > MaxChunks) \/ (MaxMsg > 0 /\ (pending + 1) * ChunkBytes > MaxMsg))
  IN
  IF over THEN /\ tstate' = "Finished" /\ UNCHANGED <<issued, pending, pmsg>>      \* refused before it is put on the list
               /\ evt' = Obs(kind, fl, svc, TRUE, <<>>, "error")
  \* intermediate chunks followed by a final chunk: the harness sends the pieces of one GetEndpoints request when all of them are
  \* MSG chunks (they reassemble into the request); any other mixture does not decode
  ELSE IF pending > 0 /\ ~(pmsg /\ kind = "MSG" /\ svc = "GetEndpoints") THEN Finish(kind, fl, svc, "error")
  ELSE UNCHANGED pmsg /\ (
  IF kind = "OPNI"
  THEN /\ issued' = TRUE /\ pending' = 0 /\ UNCHANGED tstate /\ evt' = Obs(kind, fl, svc, TRUE, <<"OPN">>, "")
  ELSE IF kind = "OPNR"
  THEN IF issued THEN /\ pending' = 0 /\ UNCHANGED <<tstate, issued>> /\ evt' = Obs(kind, fl, svc, TRUE, <<"OPN">>, "")
       ELSE /\ tstate' = "Finished" /\ pending' = 0 /\ UNCHANGED issued /\ evt' = Obs(kind, fl, svc, TRUE, <<>>, "error")
  ELSE IF kind = "CLO"
  THEN /\ tstate' = "Finished" /\ pending' = 0 /\ UNCHANGED issued /\ evt' = Obs(kind, fl, svc, TRUE, <<>>, "error")
  ELSE IF kind = "MSGS" /\ issued
  THEN /\ tstate' = "Finished" /\ pending' = 0 /\ UNCHANGED issued /\ evt' = Obs(kind, fl, svc, TRUE, <<>>, "error")
  ELSE \* MSG
  IF ~issued /\ ~DevMsgBeforeOpen
  THEN /\ tstate' = "Finished" /\ pending' = 0 /\ UNCHANGED issued /\ evt' = Obs(kind, fl, svc, TRUE, <<>>, "error")
  ELSE /\ pending' = 0 /\ UNCHANGED <<tstate, issued>>
       /\ evt' = Obs(kind, fl, svc, TRUE, <<IF svc = "GetEndpoints" THEN "GetEndpointsResponse" ELSE "ServiceFault">>, ""))

-----------------------------------------------------------------------------
CONSTANTS Kinds, MaxDepth
VARIABLE depth
DInit == Init /\ depth = 0
DNext == /\ depth < MaxDepth /\ depth' = depth + 1
         /\ \E k \in Kinds : Frame(k[1], k[2], k[3])
Done == depth = MaxDepth
=============================================================================
