------------------------------- MODULE Services -------------------------------
(***************************************************************************)
(* C33  The request universe of the services dispatched by                  *)
(* MessageHandler::handle_message: for each service an abstract request      *)
(* shape whose parameters range over adversarial classes (missing / null     *)
(* ids, self references, unknown namespaces, reserved characters in browse   *)
(* names, malformed index ranges, mismatching attribute structures,          *)
(* malformed event where-clauses, NaN / zero / huge numbers, bogus           *)
(* continuation points and subscription ids ...).  A behaviour is a short    *)
(* sequence of requests on an activated session, each followed by a probe    *)
(* (a plain Read that must still be served), optionally by timer ticks.      *)
(* Property: every request yields a response or a ServiceFault (Publish may  *)
(* be queued), nothing panics / aborts / hangs, and the probe is answered.   *)
(***************************************************************************)
EXTENDS Integers, Sequences, FiniteSets, TLC

NodeC == {"var", "str", "obj", "missing", "null", "server"}       \* var = Int32 variable, str = non-ASCII String variable
\* type nodes: rt1 -HasSubtype-> rt2 (two reference types of the standard hierarchy), dt1 -HasSubtype-> dt2 (data types of the
\* session), vardt = variable of type dt1
TypeC == {"rt1", "rt2", "dt1", "dt2"}
AttrC == {"Value", "BrowseName", "EventNotifier", "zero", "big"}
RangeC == {"none", "1", "0:1", "1:0", "5:900", "a", "1,2", "1:2:3"}
NameC == {"ok", "slash", "dot", "lt", "amp", "colon", "hash", "empty", "ns5", "dup"}
ClassC == {"Object", "Variable", "Method", "Unspecified", "View"}
AttrsC == {"match", "mismatch", "null", "garbage"}
TypeDefC == {"ok", "null", "missing"}
RefC == {"Organizes", "HasComponent", "null", "missing", "nonref"}
RefXC == RefC \cup {"HasSubtype", "rt1"}
FilterC == {"none", "datachange", "event_empty", "event_badcount", "event_badindex", "event_selfref", "event_attrop", "event_deep", "garbage"}
NumC == {"nan", "neg", "zero", "small", "huge"}

R(svc, p) == [svc |-> svc] @@ p

Reads == {R("Read", [node |-> n, attr |-> a, range |-> r]) : n \in NodeC, a \in AttrC, r \in RangeC}
Writes == {R("Write", [node |-> n, attr |-> a, range |-> r, val |-> v]) :
              n \in {"var", "str", "obj", "missing", "vardt"}, a \in {"Value", "BrowseName", "zero"}, r \in RangeC,
              v \in {"int", "string", "utf8", "array", "bytes", "null"}}
Browses == {R("Browse", [node |-> n, ref |-> t, max |-> m]) : n \in NodeC, t \in RefXC, m \in {0, 1}}
BrowseNexts == {R("BrowseNext", [cp |-> c, release |-> b]) : c \in {"null", "bogus", "live"}, b \in BOOLEAN}
Translates == {R("Translate", [node |-> n, path |-> p]) : n \in NodeC,
                 p \in {"empty", "nullname", "one", "customref", "long", "noelements", "rt1"}}
Registers == {R("RegisterNodes", [node |-> n]) : n \in NodeC} \cup {R("UnregisterNodes", [node |-> n]) : n \in NodeC}
AddNodesC == {R("AddNodes", [parent |-> pa, name |-> nm, rid |-> id, class |-> c, attrs |-> at, typedef |-> td, ref |-> rf]) :
               pa \in {"obj", "missing", "null"}, nm \in NameC, id \in {"null", "ns9", "existing", "fresh"}, c \in ClassC,
               at \in AttrsC, td \in TypeDefC, rf \in {"Organizes", "null", "nonref"}}
AddRefs == {R("AddReferences", [src |-> s, dst |-> d, ref |-> rf, fwd |-> f, cls |-> c]) :
               s \in {"var", "obj", "missing", "null"} \cup TypeC, d \in {"var", "obj", "missing", "null", "same"} \cup TypeC,
               rf \in RefC \cup {"HasSubtype"}, f \in BOOLEAN, c \in {"Variable", "Object", "Unspecified", "ReferenceType", "DataType"}}
DelNodes == {R("DeleteNodes", [node |-> n, tr |-> b]) : n \in {"missing", "null", "added", "cyc"}, b \in BOOLEAN}
DelRefs == {R("DeleteReferences", [src |-> s, dst |-> d, ref |-> rf, fwd |-> f, bi |-> b]) :
               s \in {"var", "obj", "missing", "null"}, d \in {"var", "obj", "missing", "null", "same"}, rf \in {"Organizes", "null", "nonref"},
               f \in BOOLEAN, b \in BOOLEAN}
Subs == {R("CreateSubscription", [itv |-> i, ka |-> k, lt |-> l]) : i \in NumC, k \in {"zero", "small", "huge"}, l \in {"zero", "small", "huge"}}
        \cup {R("ModifySubscription", [sub |-> s, itv |-> i]) : s \in {"live", "bogus"}, i \in NumC}
        \cup {R("SetPublishingMode", [sub |-> s]) : s \in {"live", "bogus", "none"}}
        \cup {R("DeleteSubscriptions", [sub |-> s]) : s \in {"live", "bogus", "none"}}
        \cup {R("TransferSubscriptions", [sub |-> s]) : s \in {"live", "bogus", "none"}}
        \cup {R("Publish", [ack |-> a]) : a \in {"none", "bogus", "live"}}
        \cup {R("Republish", [sub |-> s, seq |-> q]) : s \in {"live", "bogus"}, q \in {0, 1, 99}}
Items == {R("CreateMonitoredItems", [sub |-> s, node |-> n, attr |-> a, filter |-> f, samp |-> sm, qs |-> q, range |-> r]) :
             s \in {"live", "bogus"}, n \in {"var", "str", "server", "missing", "null"}, a \in {"Value", "EventNotifier", "zero"},
             f \in FilterC, sm \in {"nan", "neg", "zero", "huge"}, q \in {"zero", "huge"}, r \in {"none", "a", "1:0"}}
         \cup {R("ModifyMonitoredItems", [sub |-> s, item |-> i, filter |-> f, qs |-> q]) : s \in {"live", "bogus"}, i \in {"live", "bogus"},
                 f \in FilterC, q \in {"zero", "huge"}}
         \cup {R("SetMonitoringMode", [sub |-> s, item |-> i, mode |-> m]) : s \in {"live", "bogus"}, i \in {"live", "bogus", "none"},
                 m \in {"Disabled", "Sampling", "Reporting"}}
         \cup {R("SetTriggering", [sub |-> s, item |-> i, link |-> l]) : s \in {"live", "bogus"}, i \in {"live", "bogus"},
                 l \in {"none", "self", "bogus", "live2"}}
         \cup {R("DeleteMonitoredItems", [sub |-> s, item |-> i]) : s \in {"live", "bogus"}, i \in {"live", "bogus", "none"}}
Calls == {R("Call", [obj |-> o, method |-> m, args |-> a]) : o \in {"server", "obj", "missing", "null"},
             m \in {"GetMonitoredItems", "ResendData", "missing", "null"}, a \in {"none", "live", "bogus", "wrongtype", "toomany"}}
Hist == {R("HistoryRead", [details |-> d, node |-> n]) : d \in {"null", "raw", "events", "garbage"}, n \in {"var", "missing"}}
        \cup {R("HistoryUpdate", [details |-> d]) : d \in {"null", "updatedata", "garbage", "none"}}
Misc == {R("QueryFirst", [x |-> 0]), R("QueryNext", [x |-> 0]), R("Cancel", [x |-> 0]),
         R("GetEndpoints", [x |-> 0]), R("FindServers", [x |-> 0]), R("RegisterServer", [x |-> 0])}

Universe == Reads \cup Writes \cup Browses \cup BrowseNexts \cup Translates \cup Registers \cup AddNodesC \cup AddRefs \cup DelNodes
            \cup DelRefs \cup Subs \cup Items \cup Calls \cup Hist \cup Misc

-----------------------------------------------------------------------------
(* Requests that are likely to be carried out (every parameter in a class that names something that exists) -- the  *)
(* ones that change the state later requests run against.  Behaviours of two requests on one session, both from     *)
(* this set, are enumerated exhaustively (GenServicesPairs); longer ones are sampled (GenServicesSeq).              *)
IsLive(r) ==
  CASE r.svc = "Read" -> r.node \in {"var", "obj"} /\ r.attr \in {"Value", "BrowseName"} /\ r.range \in {"none", "1"}
    [] r.svc = "Write" -> r.node \in {"var", "str", "vardt"} /\ r.attr = "Value" /\ r.range \in {"none", "0:1"} /\ r.val \in {"int", "string", "array", "null"}
    [] r.svc = "Browse" -> r.node \in {"obj", "var", "server"} /\ r.ref \in {"Organizes", "null", "rt1"}
    [] r.svc = "BrowseNext" -> r.cp = "live"
    [] r.svc = "Translate" -> r.node \in {"obj", "server"} /\ r.path \in {"one", "rt1", "long"}
    [] r.svc \in {"RegisterNodes", "UnregisterNodes"} -> r.node = "var"
    [] r.svc = "AddNodes" -> r.parent = "obj" /\ r.name \in {"ok", "dup"} /\ r.rid \in {"null", "fresh"} /\ r.class \in {"Object", "Variable"}
                             /\ r.attrs = "match" /\ r.typedef = "ok" /\ r.ref = "Organizes"
    [] r.svc = "AddReferences" ->
          \/ r.src \in {"var", "obj"} /\ r.dst \in {"var", "obj"} /\ r.src # r.dst /\ r.ref \in {"Organizes", "HasComponent"}
                /\ r.cls = (IF r.dst = "var" THEN "Variable" ELSE "Object")
          \/ r.src \in {"rt1", "rt2"} /\ r.dst \in {"rt1", "rt2"} /\ r.src # r.dst /\ r.ref = "HasSubtype" /\ r.cls = "ReferenceType"
          \/ r.src \in {"dt1", "dt2"} /\ r.dst \in {"dt1", "dt2"} /\ r.src # r.dst /\ r.ref = "HasSubtype" /\ r.cls = "DataType"
    [] r.svc = "DeleteNodes" -> r.node \in {"added", "cyc"}
    [] r.svc = "DeleteReferences" -> r.src = "obj" /\ r.dst = "var" /\ r.ref = "Organizes" /\ r.fwd
    [] r.svc = "CreateSubscription" -> r.itv = "small" /\ r.ka = "small" /\ r.lt = "small"
    [] r.svc = "ModifySubscription" -> r.sub = "live" /\ r.itv \in {"small", "zero"}
    [] r.svc \in {"SetPublishingMode", "DeleteSubscriptions", "TransferSubscriptions"} -> r.sub = "live"
    [] r.svc = "Publish" -> r.ack \in {"none", "live"}
    [] r.svc = "Republish" -> r.sub = "live" /\ r.seq = 1
    [] r.svc = "CreateMonitoredItems" -> r.sub = "live" /\ r.node \in {"var", "str"} /\ r.attr = "Value" /\ r.filter \in {"none", "datachange"}
                                         /\ r.samp \in {"neg", "zero"} /\ r.qs = "zero" /\ r.range = "none"
    [] r.svc = "ModifyMonitoredItems" -> r.sub = "live" /\ r.item = "live" /\ r.filter \in {"none", "datachange"}
    [] r.svc = "SetMonitoringMode" -> r.sub = "live" /\ r.item = "live"
    [] r.svc = "SetTriggering" -> r.sub = "live" /\ r.item = "live" /\ r.link \in {"self", "live2"}
    [] r.svc = "DeleteMonitoredItems" -> r.sub = "live" /\ r.item = "live"
    [] r.svc = "Call" -> r.obj = "server" /\ r.method \in {"GetMonitoredItems", "ResendData"} /\ r.args = "live"
    [] OTHER -> FALSE
Live == {r \in Universe : IsLive(r)}
Pairs == Live \X Live

\* L2: the property on an observation record
\* e = [req, kind in {"response","fault","queued","none"}, fail, site, probe in BOOLEAN, ticked in BOOLEAN]
ServicesViol(e) ==
  (IF e.fail # "none" THEN {"fail:" \o e.site} ELSE {})
  \cup (IF e.fail = "none" /\ e.kind = "none" THEN {"no-response:" \o e.req.svc} ELSE {})
  \cup (IF e.fail = "none" /\ e.kind = "queued" /\ e.req.svc # "Publish" THEN {"no-response:" \o e.req.svc} ELSE {})
  \cup (IF e.fail = "none" /\ ~e.probe THEN {"server-stopped-serving-after:" \o e.req.svc} ELSE {})
=============================================================================
