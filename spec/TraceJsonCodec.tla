--------------------------- MODULE TraceJsonCodec ---------------------------
(* C42 judge.  One observation per value, see JsonCodec!RtViol:               *)
(*   e.c = [ty, w]  the case;  e.r = [fail, site, ser, de, back, eq, json, text] *)
EXTENDS JsonCodec, Json, IOUtils
ObsLog == ndJsonDeserialize(IOEnv.OBS)
VARIABLES l, out
T == INSTANCE TraceFn WITH Viol <- RtViol, Prop <- "C42", Obs <- ObsLog
TSpec == T!TSpec
=============================================================================
