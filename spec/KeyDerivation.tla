---------------------------- MODULE KeyDerivation ----------------------------
(***************************************************************************)
(* C13  Channel keys are derived per the specification and agree on both    *)
(* ends.                                                                    *)
(*                                                                          *)
(* Part 6, 6.7.5, Table 33 as SYMBOLIC terms.  A key is the term            *)
(*     PSHA(h, secret, seed)[off .. off+len)                                *)
(* where h is the hash of the policy's KeyDerivationAlgorithm (P_SHA-1 /    *)
(* P_SHA-256, RFC 5246 P_hash), secret and seed name the nonce of the       *)
(* client ("C") or of the server ("S"), and off/len come from the key       *)
(* lengths of the security policy (Part 7).  PSHA is uninterpreted: two     *)
(* terms denote the same bytes iff they are TermEq (HMAC zero-pads its key  *)
(* to the block size, so secrets that differ only in trailing zero bytes    *)
(* are the same HMAC key -- that equivalence belongs to P_hash itself).     *)
(*                                                                          *)
(* Function-like pattern: a case is (policy, client nonce, server nonce);   *)
(* TLC enumerates the cases, checks the specified derivation (`Derive', the *)
(* shape of SecureChannel::derive_keys) against the property and prints the *)
(* expected terms; the harness evaluates the printed terms with an          *)
(* independent P_hash and maps the bytes the real code derived back to      *)
(* terms; `KeyViol' (the judge) compares terms.                             *)
(***************************************************************************)
EXTENDS Integers, Sequences, FiniteSets, SequencesExt, TLC

CONSTANTS Lens,        \* lengths of the pseudo-random nonces "r1" (quick: edge lengths, thorough: 0..64)
          EdgeLens,    \* lengths of the repeated-byte nonces
          DevAppendLocalNonce   \* deviation (FALSE in the design): setting the local nonce appends to the stored one

Policies == {"Basic128Rsa15", "Basic256", "Basic256Sha256", "Aes128Sha256RsaOaep", "Aes256Sha256RsaPss"}

\* Part 7: KeyDerivationAlgorithm, DerivedSignatureKeyLength, SymmetricEncryptionAlgorithm (key length, block size), bytes
Hash(p) == IF p \in {"Basic128Rsa15", "Basic256"} THEN "sha1" ELSE "sha256"
SigLen(p) == CASE p = "Basic128Rsa15" -> 16 [] p = "Basic256" -> 24 [] OTHER -> 32
EncLen(p) == IF p \in {"Basic128Rsa15", "Aes128Sha256RsaOaep"} THEN 16 ELSE 32
BlkLen(p) == 16

-----------------------------------------------------------------------------
(* abstract nonces: a length and a fill.  "zero"/"ff"/"a5" repeat one byte,  *)
(* "inc" is 1,2,3,..., "r1"/"r2" are the first len bytes of two fixed        *)
(* pseudo-random streams without zero bytes (so nonces of one stream are     *)
(* prefixes of each other).  The empty nonce has one representation.        *)
Mk(l, f) == IF l = 0 THEN [len |-> 0, fill |-> "zero"] ELSE [len |-> l, fill |-> f]

Nonces == {Mk(l, "r1") : l \in Lens}
          \cup {Mk(l, f) : l \in EdgeLens, f \in {"zero", "ff", "a5"}}
          \cup {Mk(l, "r2") : l \in {16, 32}} \cup {Mk(32, "inc"), Mk(0, "zero")}

\* the HMAC key a nonce denotes (trailing zero bytes do not matter, all nonces are <= 64 bytes = block size)
KeyNorm(n) == IF n.fill = "zero" THEN Mk(0, "zero") ELSE n

\* single derivations on fresh channel objects
OneCases == {[kind |-> "one", pol |-> p, cn |-> a, sn |-> b] : p \in Policies, a \in Nonces, b \in Nonces}

(* sequences of exchanges on ONE pair of channel objects: issue, then one or two renewals, each with a fresh   *)
(* nonce pair of the policy's SecureChannelNonceLength (Part 7).  "srvrand" = the server end generates its    *)
(* nonce itself (create_random_nonce) and the client is given whatever it generated.                          *)
NonceLen(p) == IF p = "Basic128Rsa15" THEN 16 ELSE 32
Pairs(p) == LET L == NonceLen(p)
            IN {[cn |-> Mk(L, "r1"), sn |-> Mk(L, "r2")], [cn |-> Mk(L, "r3"), sn |-> Mk(L, "r4")],
                [cn |-> Mk(L, "r2"), sn |-> Mk(L, "r1")], [cn |-> Mk(L, "r5"), sn |-> Mk(L, "srvrand")]}
SeqCases == UNION {{[kind |-> "seq", pol |-> p, ex |-> <<a, b>>] : a \in Pairs(p), b \in Pairs(p)}
                    \cup {[kind |-> "seq", pol |-> p, ex |-> <<a, b, d>>] : a \in Pairs(p), b \in Pairs(p), d \in Pairs(p)}
                   : p \in Policies}

Cases == OneCases \cup SeqCases

-----------------------------------------------------------------------------
(* terms *)
Term(h, secret, seed, off, len) == [h |-> h, secret |-> secret, seed |-> seed, off |-> off, len |-> len]
Val(c, who) == IF who = "C" THEN c.cn ELSE c.sn

\* two terms, each read in its own case, denote the same byte string
TermEq(c1, t1, c2, t2) ==
  /\ t1.h = t2.h /\ t1.off = t2.off /\ t1.len = t2.len /\ t1.h # "none"
  /\ KeyNorm(Val(c1, t1.secret)) = KeyNorm(Val(c2, t2.secret))
  /\ Val(c1, t1.seed) = Val(c2, t2.seed)

Slots == {"sign", "enc", "iv"}
KeysEq(c1, k1, c2, k2) == \A s \in Slots : TermEq(c1, k1[s], c2, k2[s])

\* PRF(secret, seed) cut into signing key, encrypting key, initialisation vector
Make(p, secret, seed) ==
  [sign |-> Term(Hash(p), secret, seed, 0, SigLen(p)),
   enc  |-> Term(Hash(p), secret, seed, SigLen(p), EncLen(p)),
   iv   |-> Term(Hash(p), secret, seed, SigLen(p) + EncLen(p), BlkLen(p))]

(* Table 33: the Client keys secure messages sent by the Client, secret = ServerNonce, seed = ClientNonce;  *)
(*           the Server keys secure messages sent by the Server, secret = ClientNonce, seed = ServerNonce.  *)
Table33(p, who) == IF who = "C" THEN Make(p, "S", "C") ELSE Make(p, "C", "S")
Other(who) == IF who = "C" THEN "S" ELSE "C"

-----------------------------------------------------------------------------
(* L1: what an end of the channel derives (shape of SecureChannel::derive_keys): with its own nonce as      *)
(* `local' and the peer's as `remote', the keys it secures with are PRF(secret = remote, seed = local), the *)
(* keys it verifies with are PRF(secret = local, seed = remote).                                            *)
Derive(p, role) ==
  [local  |-> Make(p, Other(role), role),
   remote |-> Make(p, role, Other(role))]

\* nonce pairs a case is compared with for "different nonces give different keys"
Alts(n) == {Mk(n.len, "r2"), Mk(IF n.len = 32 THEN 16 ELSE 32, n.fill), Mk(IF n.len > 0 THEN n.len - 1 ELSE 1, n.fill)} \ {n}
Others(c) == ({[kind |-> "one", pol |-> c.pol, cn |-> c.sn, sn |-> c.cn]}
              \cup {[kind |-> "one", pol |-> c.pol, cn |-> a, sn |-> c.sn] : a \in Alts(c.cn)}
              \cup {[kind |-> "one", pol |-> c.pol, cn |-> c.cn, sn |-> a] : a \in Alts(c.sn)}) \ {c}

SlotNames == <<"cs", "ce", "ci", "ss", "se", "si">>
SlotTerm(p, n) == CASE n = "cs" -> Table33(p, "C").sign [] n = "ce" -> Table33(p, "C").enc [] n = "ci" -> Table33(p, "C").iv
                    [] n = "ss" -> Table33(p, "S").sign [] n = "se" -> Table33(p, "S").enc [] n = "si" -> Table33(p, "S").iv

\* the property on the specified derivation
DesignHolds(c) ==
  /\ KeysEq(c, Derive(c.pol, "C").local, c, Table33(c.pol, "C"))
  /\ KeysEq(c, Derive(c.pol, "S").local, c, Table33(c.pol, "S"))
  /\ KeysEq(c, Derive(c.pol, "C").local, c, Derive(c.pol, "S").remote)       \* what the client secures with, the server verifies with
  /\ KeysEq(c, Derive(c.pol, "S").local, c, Derive(c.pol, "C").remote)
  /\ \A q \in Others(c) : \E i \in 1..6 : ~TermEq(c, SlotTerm(c.pol, SlotNames[i]), q, SlotTerm(q.pol, SlotNames[i]))

-----------------------------------------------------------------------------
(* The two channel objects over a sequence of exchanges.  An end stores its local and its remote nonce (here:   *)
(* the sequence of abstract nonces whose concatenation it holds) and derives from what it stores; terms carry   *)
(* the stored VALUES.  Per exchange the client does  set_local_nonce(cn); set_remote_nonce(sn); derive_keys,    *)
(* the server  set_remote_nonce(cn); set_local_nonce(sn) / create_random_nonce; derive_keys.                    *)
SetLocal(e, n) == [e EXCEPT !.local = IF DevAppendLocalNonce THEN @ \o <<n>> ELSE <<n>>]
SetRemote(e, n) == [e EXCEPT !.remote = <<n>>]
DeriveEnd(p, e) == [e EXCEPT !.keys = [local |-> Make(p, e.remote, e.local), remote |-> Make(p, e.local, e.remote)]]
Fresh == [local |-> <<>>, remote |-> <<>>, keys |-> <<>>]

Exchange(p, st, x) == [cli |-> DeriveEnd(p, SetRemote(SetLocal(st.cli, x.cn), x.sn)),
                       srv |-> DeriveEnd(p, SetLocal(SetRemote(st.srv, x.cn), x.sn))]
RECURSIVE RunSeq(_, _, _)
RunSeq(p, st, xs) == IF xs = <<>> THEN <<>>
                     ELSE LET st1 == Exchange(p, st, Head(xs)) IN <<st1>> \o RunSeq(p, st1, Tail(xs))

(* history independence: after EVERY exchange both ends hold exactly the Table 33 keys of the nonces of THAT    *)
(* exchange (so the securing keys of one end are the verifying keys of the other)                               *)
SeqHolds(c) ==
  LET run == RunSeq(c.pol, [cli |-> Fresh, srv |-> Fresh], c.ex)
  IN \A i \in 1..Len(c.ex) :
       LET x == c.ex[i]
           ck == Make(c.pol, <<x.sn>>, <<x.cn>>)      \* Table 33 client keys: secret = server nonce, seed = client nonce
           sk == Make(c.pol, <<x.cn>>, <<x.sn>>)
       IN /\ run[i].cli.keys = [local |-> ck, remote |-> sk]
          /\ run[i].srv.keys = [local |-> sk, remote |-> ck]

Holds(c) == IF c.kind = "one" THEN DesignHolds(c) ELSE SeqHolds(c)

-----------------------------------------------------------------------------
(* L2: the judge.  r.mk = keys from SecurityPolicy::make_secure_channel_keys for both directions,           *)
(* r.cli / r.srv = keys held by a client-role / server-role SecureChannel after derive_keys, each key       *)
(* mapped back to a term by the harness ("none" = not a P_SHA output of these nonces);                      *)
(* r.agree = byte equality across the roles, r.wire = a chunk secured by one role verified by the other;    *)
(* r.others[i].same[slot] = the real key bytes of this case and of the other nonce pair are equal.          *)
Bad(c, got, want) == ~KeysEq(c, got, c, want)

\* the clauses of one exchange: x = [pol, cn, sn] of that exchange, r = the keys both ends hold after it
EndsViol(x, r, tag) ==
     (IF Bad(x, r.cli.local, Table33(x.pol, "C")) \/ Bad(x, r.cli.remote, Table33(x.pol, "S"))
      THEN {"client-role-keys-not-the-Table33-P_SHA-terms" \o tag} ELSE {})
     \cup (IF Bad(x, r.srv.local, Table33(x.pol, "S")) \/ Bad(x, r.srv.remote, Table33(x.pol, "C"))
           THEN {"server-role-keys-not-the-Table33-P_SHA-terms" \o tag} ELSE {})
     \cup (IF ~r.agree.c2s \/ ~r.agree.s2c THEN {"securing-keys-of-one-end-differ-from-verifying-keys-of-the-other" \o tag} ELSE {})
     \cup (IF r.wire.c2s # "ok" \/ r.wire.s2c # "ok" THEN {"chunk-secured-by-one-end-rejected-by-the-other" \o tag} ELSE {})

OneViol(c, r) ==
     IF r.fail # "none" THEN {"keys-not-derived:" \o r.site}
     ELSE (IF Bad(c, r.mk.client, Table33(c.pol, "C")) \/ Bad(c, r.mk.server, Table33(c.pol, "S"))
           THEN {"make_secure_channel_keys-not-the-Table33-P_SHA-terms"} ELSE {})
     \cup EndsViol(c, r, "")
     \cup (IF \E i \in 1..Len(r.others) :
               LET o == r.others[i]
               IN \/ \A j \in 1..6 : o.same[SlotNames[j]]
                  \/ \E j \in 1..6 : o.same[SlotNames[j]] /\ ~TermEq(c, SlotTerm(c.pol, SlotNames[j]), o.q, SlotTerm(o.q.pol, SlotNames[j]))
           THEN {"different-nonces-same-keys"} ELSE {})

\* r.steps[i] = what both ends hold after exchange i of the sequence, on the same two channel objects
SeqViol(c, r) ==
     (IF r.fail # "none" THEN {"keys-not-derived:" \o r.site} ELSE {})
     \cup UNION {EndsViol([pol |-> c.pol, cn |-> c.ex[i].cn, sn |-> c.ex[i].sn], r.steps[i],
                          IF i = 1 THEN "" ELSE ":after-renewal") : i \in 1..Len(r.steps)}
     \cup (IF r.fail = "none" /\ Len(r.steps) # Len(c.ex) THEN {"keys-not-derived:exchange-missing"} ELSE {})

KeyViol(e) == IF e.c.kind = "one" THEN OneViol(e.c, e.r) ELSE SeqViol(e.c, e.r)

\* expected observation (L1) printed with every case; drift is measured on the key terms only
Expected(c) == [mk  |-> [client |-> Table33(c.pol, "C"), server |-> Table33(c.pol, "S")],
                cli |-> Derive(c.pol, "C"), srv |-> Derive(c.pol, "S"),
                others |-> IF c.kind = "one" THEN SetToSeq(Others(c)) ELSE <<>>]
=============================================================================
