---------------------------- MODULE TraceTotality ----------------------------
EXTENDS Totality, Json, IOUtils
ObsLog == ndJsonDeserialize(IOEnv.OBS)
VARIABLES l, out
T == INSTANCE TraceFn WITH Viol <- TotalViol, Prop <- "C09", Obs <- ObsLog
TSpec == T!TSpec
=============================================================================
