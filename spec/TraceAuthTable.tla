---------------------------- MODULE TraceAuthTable ----------------------------
EXTENDS AuthTable, Json, IOUtils
ObsLog == ndJsonDeserialize(IOEnv.OBS)
VARIABLES l, out
T == INSTANCE TraceFn WITH Viol <- AuthViol, Prop <- "C20", Obs <- ObsLog
TSpec == T!TSpec
=============================================================================
