----------------------------- MODULE GenCodecRt -----------------------------
EXTENDS MCCodecRt, Json
Emit == PrintT(<<"CASE", ToJson([c |-> c, exp |-> [bytes |-> Enc(c.ty, UnwrapC(c.ty, c.w))]])>>)
=============================================================================
