----------------------------- MODULE GenServicesLive -----------------------------
(* the likely-to-succeed requests of Services.tla, one per state *)
EXTENDS Services, Json
VARIABLE c
Init == c \in Live
Next == UNCHANGED c
Spec == Init /\ [][Next]_c
Emit == PrintT(<<"CASE", ToJson([steps |-> <<c>>])>>)
=============================================================================
