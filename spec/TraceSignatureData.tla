-------------------------- MODULE TraceSignatureData --------------------------
EXTENDS SignatureData, Json, IOUtils
ObsLog == ndJsonDeserialize(IOEnv.OBS)
VARIABLES l, out
T == INSTANCE TraceFn WITH Viol <- SigViol, Prop <- "C17", Obs <- ObsLog
TSpec == T!TSpec
=============================================================================
