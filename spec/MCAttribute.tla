---------------------------- MODULE MCAttribute ----------------------------
EXTENDS AttributeDriver
VARIABLES mon, viol
MP == INSTANCE AttributeProps
MInit == DInit /\ mon = MP!M32Init /\ viol = {}
MNext == DNext /\ LET r == MP!Mon32Step(mon, evt') IN mon' = r.g /\ viol' = r.viol
MSpec == MInit /\ [][MNext]_<<vars, dvars, mon, viol>>
C32 == viol = {}
MView == <<val, depth, focus, mon, viol>>
=============================================================================
