----------------------------- MODULE SubsProps -----------------------------
(***************************************************************************)
(* L2 property monitors for the subscription engine.  Each monitor is a     *)
(* small state machine over OBSERVATION RECORDS only (the records that      *)
(* Subscription.tla produces as evt' and that the harness produces from the *)
(* real code).  Mon<id>Step(g, e) returns the new ghost state and the set   *)
(* of clauses of property <id> that record e violates.                      *)
(*                                                                          *)
(* Record fields used: ev, fail, pre, out (sequences of responses           *)
(* [req,k,sub,seq,vals,more,avail,res,code]), st (projection), and the      *)
(* arguments of the call.                                                   *)
(***************************************************************************)
EXTENDS Integers, Sequences, FiniteSets, SequencesExt, TLC

CONSTANTS SubIds, ItemIds, ReqTimeout

NoVal == -1
Resps(e) == IF e.ev = "Republish" THEN <<>> ELSE e.pre \o e.out
IsMsg(r) == r.k \in {"DATA", "KA", "STATUS"}

StIdx(e, id) == {j \in 1..Len(e.st.subs) : e.st.subs[j].id = id}
HasSub(e, id) == StIdx(e, id) # {}
StSub(e, id) == e.st.subs[CHOOSE j \in StIdx(e, id) : TRUE]
ItIdx(s, i) == {j \in 1..Len(s.items) : s.items[j].id = i}
HasItem(e, id, i) == HasSub(e, id) /\ ItIdx(StSub(e, id), i) # {}
StItem(e, id, i) == LET s == StSub(e, id) IN s.items[CHOOSE j \in ItIdx(s, i) : TRUE]
LiveSubs(e) == {e.st.subs[j].id : j \in {k \in 1..Len(e.st.subs) : e.st.subs[k].st # "Closed"}}

RemFirst(q, x) ==
  LET idx == {j \in 1..Len(q) : q[j] = x} IN
  IF idx = {} THEN q
  ELSE LET m == CHOOSE j \in idx : \A k \in idx : j <= k
       IN SubSeq(q, 1, m - 1) \o SubSeq(q, m + 1, Len(q))

Flat(vs) == [j \in 1..Len(vs) |-> vs[j][1]]        \* <<v, ovf>> pairs -> values

-----------------------------------------------------------------------------
(* C21  Publish responses pair with requests and deliver every data change *)
(*      once                                                               *)
Pairs == SubIds \X ItemIds

M21Init ==
  [queued |-> <<>>,
   lastSeq |-> [s \in SubIds |-> 0],
   samp  |-> [p \in Pairs |-> <<>>],
   deliv |-> [p \in Pairs |-> <<>>],
   lastv |-> [p \in Pairs |-> NoVal],
   plen  |-> [p \in Pairs |-> 0],
   good  |-> [p \in Pairs |-> FALSE]]

\* fold over the responses of one record: pairing (a) and numbering (c), and deliveries
RECURSIVE M21Resp(_, _, _)
M21Resp(g, rs, viol) ==
  IF rs = <<>> THEN [g |-> g, viol |-> viol]
  ELSE
  LET r == Head(rs) IN
  IF r.k = "FAULT"
  THEN M21Resp([g EXCEPT !.queued = RemFirst(@, r.req)], Tail(rs),
               viol \cup (IF \E j \in 1..Len(g.queued) : g.queued[j] = r.req THEN {} ELSE {"a:answers-unqueued-request"}))
  ELSE
  LET inq  == \E j \in 1..Len(g.queued) : g.queued[j] = r.req
      head == g.queued # <<>> /\ Head(g.queued) = r.req
      v1 == (IF ~inq THEN {"a:answers-unqueued-request"} ELSE IF ~head THEN {"a:not-oldest-first"} ELSE {})
            \cup (IF r.sub \in SubIds /\ r.seq <= g.lastSeq[r.sub] THEN {"c:sequence-not-increasing"} ELSE {})
      dl == IF r.k = "DATA"
            THEN [p \in Pairs |->
                    LET h == {j \in 1..Len(r.vals) : r.sub = p[1] /\ r.vals[j][1] = p[2]} IN
                    IF h = {} THEN g.deliv[p]
                    ELSE g.deliv[p] \o Flat(r.vals[CHOOSE j \in h : TRUE][2])]
            ELSE g.deliv
      g2 == [g EXCEPT !.queued = RemFirst(@, r.req),
                      !.lastSeq = IF r.sub \in SubIds THEN [@ EXCEPT ![r.sub] = r.seq] ELSE @,
                      !.deliv = dl]
  IN M21Resp(g2, Tail(rs), viol \cup v1)

Mon21Step(g, e) ==
  IF e.fail # "none" THEN [g |-> g, viol |-> {}]     \* crashes are judged by C26 / C33
  ELSE
  LET \* a new or re-created subscription restarts its numbering
      g0 == IF e.ev = "CreateSub" THEN [g EXCEPT !.lastSeq[e.sub] = 0] ELSE g
      gq == IF e.ev = "Pub" THEN [g0 EXCEPT !.queued = Append(@, e.req)] ELSE g0
      \* samples observed through the projection (the item's last sampled value changed)
      sampled(p) == HasItem(e, p[1], p[2]) /\ StItem(e, p[1], p[2]).last # NoVal
                    /\ (StItem(e, p[1], p[2]).last # g.lastv[p] \/ (e.ev = "CreateItem" /\ e.sub = p[1] /\ e.item = p[2]))
      newItem(p) == e.ev = "CreateItem" /\ e.sub = p[1] /\ e.item = p[2]
      samp1 == [p \in Pairs |-> IF newItem(p) THEN <<>>
                                ELSE IF sampled(p) THEN Append(g.samp[p], StItem(e, p[1], p[2]).last) ELSE g.samp[p]]
      lastv1 == [p \in Pairs |-> IF newItem(p) THEN NoVal
                                 ELSE IF HasItem(e, p[1], p[2]) THEN StItem(e, p[1], p[2]).last ELSE g.lastv[p]]
      good1 == [p \in Pairs |->
                 IF newItem(p) THEN e.mode = "Reporting" /\ e.samp = -1 /\ HasSub(e, p[1]) /\ StSub(e, p[1]).en
                 ELSE /\ g.good[p]
                      /\ HasItem(e, p[1], p[2])
                      /\ StSub(e, p[1]).en
                      /\ StSub(e, p[1]).st # "Closed"
                      /\ ~(e.ev = "SetMode" /\ e.sub = p[1] /\ e.item = p[2])        \* no longer reporting all along
                      \* a sample taken while the item queue was already full loses a value by design (C24)
                      /\ ~(sampled(p) /\ g.plen[p] >= StItem(e, p[1], p[2]).qsize)]
      plen1 == [p \in Pairs |-> IF HasItem(e, p[1], p[2]) THEN Len(StItem(e, p[1], p[2]).q) ELSE 0]
      g1 == [gq EXCEPT !.samp = samp1, !.lastv = lastv1, !.good = good1, !.plen = plen1,
                       !.deliv = [p \in Pairs |-> IF newItem(p) THEN <<>> ELSE @[p]]]
      r  == M21Resp(g1, Resps(e), {})
      g2 == r.g
      vb == UNION {
              (IF ~IsPrefix(g2.deliv[p], g2.samp[p]) THEN {"b:delivered-not-prefix-of-sampled"} ELSE {})
              \cup
              (IF /\ StSub(e, p[1]).nq = 0 /\ StItem(e, p[1], p[2]).q = <<>> /\ e.st.nresp = 0
                  /\ g2.deliv[p] # g2.samp[p]
               THEN {"b:sampled-value-never-delivered"} ELSE {})
              : p \in {x \in Pairs : g2.good[x]}}
  IN [g |-> g2, viol |-> r.viol \cup vb]

-----------------------------------------------------------------------------
(* C22  Keep-alives keep flowing and idle subscriptions expire on time      *)
M22Sub0 == [known |-> FALSE, maxKA |-> 0, maxLT |-> 0, itv |-> 1, lastEl |-> 0, fresh |-> FALSE,
            since |-> 0, availSince |-> TRUE, idleLoose |-> 0, idleStrict |-> 0,
            closedSeen |-> FALSE, statusSeen |-> FALSE, deleted |-> FALSE]
M22Init == [t |-> 0, nreq |-> 0, s |-> [i \in SubIds |-> M22Sub0]]

CountWhere(rs, P(_)) == Cardinality({j \in 1..Len(rs) : P(rs[j])})

Mon22Step(g, e) ==
  IF e.fail # "none" THEN [g |-> g, viol |-> {}]
  ELSE
  LET rs == Resps(e)
      nreq1 == g.nreq + (IF e.ev = "Pub" THEN 1 ELSE 0)
      answered == Len(rs)                                  \* every response answers one request
      timeouts == IF e.ev = "Tick" THEN CountWhere(e.out, LAMBDA r : r.k = "FAULT") ELSE 0
      preAns == IF e.ev = "Tick" THEN Len(e.pre) ELSE 0
      \* requests queued when this tick's subscription loop started
      atTick == g.nreq - preAns - timeouts
      live0 == {i \in SubIds : g.s[i].known /\ ~g.s[i].closedSeen /\ ~g.s[i].deleted}
      enough == atTick >= Cardinality(live0) /\ atTick >= 1
      got(i) == \E j \in 1..Len(rs) : IsMsg(rs[j]) /\ rs[j].sub = i
      gotStatus(i) == \E j \in 1..Len(rs) : rs[j].k = "STATUS" /\ rs[j].sub = i
      resets(i) == (e.ev \in {"CreateItem", "DeleteItem", "SetPubMode"} /\ e.sub = i)
                   \/ (e.ev = "Republish" /\ e.sub = i)
      step(i) ==
        LET x == g.s[i] IN
        IF e.ev = "CreateSub" /\ e.sub = i
        THEN [M22Sub0 EXCEPT !.known = TRUE, !.maxKA = e.ka, !.maxLT = e.lt, !.itv = e.itv, !.lastEl = g.t,
                             !.fresh = TRUE, !.since = e.ka]
        ELSE IF ~x.known THEN x
        ELSE IF e.ev = "DeleteSub" /\ e.sub = i THEN [x EXCEPT !.deleted = TRUE]
        \* ModifySubscription: new interval and counts; the statement is silent, the counters restart (the lenient reading)
        ELSE IF e.ev = "ModifySub" /\ e.sub = i
        THEN [x EXCEPT !.maxKA = e.ka, !.maxLT = e.lt, !.itv = e.itv, !.since = 0, !.availSince = TRUE,
                       !.idleLoose = 0, !.idleStrict = 0]
        ELSE
        LET \* the publishing timer: the first timer tick of a subscription that is still being created counts as an
            \* interval but does not restart the timer (it keeps running from the creation time)
            el == e.ev = "Tick" /\ (x.fresh \/ e.t - x.lastEl >= x.itv)
            closedNow == ~HasSub(e, i) \/ StSub(e, i).st = "Closed"
            m == got(i)
        IN [x EXCEPT
              !.lastEl = IF el /\ ~x.fresh THEN e.t ELSE @,
              !.fresh = HasSub(e, i) /\ StSub(e, i).st = "Creating",
              !.since = IF m THEN 0 ELSE IF el THEN @ + 1 ELSE @,
              !.availSince = IF m THEN TRUE ELSE IF el THEN @ /\ enough ELSE @,
              !.idleLoose  = IF resets(i) \/ m THEN 0 ELSE IF el /\ ~enough THEN @ + 1 ELSE IF el THEN 0 ELSE @,
              !.idleStrict = IF resets(i) \/ m THEN 0 ELSE IF el /\ atTick <= 0 THEN @ + 1 ELSE IF el THEN 0 ELSE @,
              !.closedSeen = @ \/ closedNow,
              !.statusSeen = @ \/ gotStatus(i)]
      s1 == [i \in SubIds |-> step(i)]
      viol(i) ==
        LET x == g.s[i]  y == s1[i]
            el == e.ev = "Tick" /\ x.known /\ (x.fresh \/ e.t - x.lastEl >= x.itv) IN
        IF ~x.known \/ x.deleted \/ y.deleted THEN {}
        ELSE
          \* keep-alive clause: with requests available at every elapsed interval since the last message,
          \* the gap never exceeds maxKA + 1 intervals (one interval of slack); first interval => message
          (IF el /\ ~x.closedSeen /\ ~y.closedSeen /\ y.availSince /\ y.since > x.maxKA
             THEN {"keepalive-gap-exceeds-maxKA+1"} ELSE {})
          \cup
          \* not before: closing needs maxLT-1 consecutive intervals without (enough) publish requests
          (IF ~x.closedSeen /\ y.closedSeen /\ (IF el THEN x.idleLoose + 1 ELSE x.idleLoose) < x.maxLT - 1
             THEN {"expired-before-lifetime"} ELSE {})
          \cup
          \* on time: after maxLT+1 intervals with no request at all it must be closed
          (IF ~y.closedSeen /\ y.idleStrict > x.maxLT + 1 THEN {"not-expired-after-lifetime"} ELSE {})
          \cup
          \* closed subscriptions leave with a StatusChange(BadTimeout) notification
          (IF ~HasSub(e, i) /\ ~y.statusSeen /\ e.st.nresp = 0 THEN {"closed-without-status-change"} ELSE {})
  IN [g |-> [t |-> IF e.ev = "Tick" THEN e.t ELSE g.t, nreq |-> nreq1 - answered, s |-> s1],
      viol |-> UNION {viol(i) : i \in SubIds}]

-----------------------------------------------------------------------------
(* C24  Monitored item queues keep the right values and survive resizing    *)
(* Ghost per item: eq = the queue the statement describes (values with the  *)
(* overflow mark), batches = drained queues not yet seen in a response.     *)
\* ovf = an overflow happened since the queue was last drained; bovf = the same for each drained queue not yet seen in a response
M24Init == [eq |-> [p \in Pairs |-> <<>>], lastv |-> [p \in Pairs |-> NoVal], dold |-> [p \in Pairs |-> TRUE],
            batches |-> [p \in Pairs |-> <<>>], ovf |-> [p \in Pairs |-> FALSE], bovf |-> [p \in Pairs |-> <<>>]]

Vals24(q) == [j \in 1..Len(q) |-> q[j][1]]
LastN(q, n) == IF Len(q) > n THEN SubSeq(q, Len(q) - n + 1, Len(q)) ELSE q

Mon24Step(g, e) ==
  IF e.fail # "none"
  THEN [g |-> g, viol |-> IF e.ev = "ModifyItem" THEN {"modify-failed:" \o e.site} ELSE {}]
  ELSE
  LET newItem(p) == e.ev = "CreateItem" /\ e.sub = p[1] /\ e.item = p[2]
      modItem(p) == e.ev = "ModifyItem" /\ e.sub = p[1] /\ e.item = p[2]
      has(p) == HasItem(e, p[1], p[2])
      it(p) == StItem(e, p[1], p[2])
      sampled(p) == has(p) /\ it(p).last # NoVal /\ it(p).last # g.lastv[p] /\ ~newItem(p)
      \* the queue after this step's sample, by the statement (queue size of the post state; a modify never samples)
      full(p) == Len(g.eq[p]) >= it(p).qsize
      enq(p) == IF ~full(p) THEN Append(g.eq[p], it(p).last)
                ELSE IF g.dold[p] THEN Append(Tail(LastN(g.eq[p], it(p).qsize)), it(p).last)
                ELSE Append(Front(LastN(g.eq[p], it(p).qsize)), it(p).last)
      eq1(p) == IF newItem(p) THEN <<>>
                ELSE IF modItem(p) /\ has(p) THEN LastN(g.eq[p], it(p).qsize)
                ELSE IF sampled(p) THEN enq(p) ELSE g.eq[p]
      drained(p) == has(p) /\ it(p).q = <<>> /\ eq1(p) # <<>>
      rs == Resps(e)
      \* values delivered for p in this record, one batch per DATA response that mentions the item
      got(p) == SelectSeq([j \in 1..Len(rs) |->
                   IF rs[j].k = "DATA" /\ rs[j].sub = p[1] /\ (\E k \in 1..Len(rs[j].vals) : rs[j].vals[k][1] = p[2])
                   THEN Vals24(rs[j].vals[CHOOSE k \in 1..Len(rs[j].vals) : rs[j].vals[k][1] = p[2]][2]) ELSE <<-99>>],
                 LAMBDA x : x # <<-99>>)
      b1(p) == IF newItem(p) THEN <<>> ELSE IF drained(p) THEN Append(g.batches[p], eq1(p)) ELSE g.batches[p]
      \* an overflow of a queue of more than one entry (the overflow of a queue of one is not marked, Part 4 7.20.1)
      ovfNow(p) == sampled(p) /\ full(p) /\ it(p).qsize > 1
      \* (a ModifyMonitoredItems in between may legitimately drop the marked entry: the flag restarts)
      ovf1(p) == IF newItem(p) \/ ~has(p) \/ modItem(p) THEN FALSE ELSE g.ovf[p] \/ ovfNow(p)
      bo1(p) == IF newItem(p) THEN <<>> ELSE IF drained(p) THEN Append(g.bovf[p], ovf1(p)) ELSE g.bovf[p]
      \* the delivered batches of p in this record, with the overflow marks
      marked(p) == SelectSeq([j \in 1..Len(rs) |->
                      IF rs[j].k = "DATA" /\ rs[j].sub = p[1] /\ (\E k \in 1..Len(rs[j].vals) : rs[j].vals[k][1] = p[2])
                      THEN LET b == rs[j].vals[CHOOSE k \in 1..Len(rs[j].vals) : rs[j].vals[k][1] = p[2]][2]
                           IN IF \E m \in 1..Len(b) : b[m][2] = 1 THEN 1 ELSE 0
                      ELSE 2],
                    LAMBDA x : x # 2)
      v(p) ==
        IF ~has(p) THEN {}
        ELSE (IF Len(it(p).q) > it(p).qsize THEN {"queue-longer-than-queue-size"} ELSE {})
             \cup (IF Vals24(it(p).q) # eq1(p) /\ it(p).q # <<>> THEN {"queue-holds-wrong-values"} ELSE {})
             \cup (IF Len(got(p)) > Len(b1(p)) \/ (\E j \in 1..Len(got(p)) : j <= Len(b1(p)) /\ got(p)[j] # b1(p)[j])
                     THEN {"delivered-values-differ-from-queue"} ELSE {})
             \cup (IF sampled(p) /\ full(p) /\ it(p).qsize > 1 /\ it(p).q # <<>>
                      /\ ~(\E j \in 1..Len(it(p).q) : it(p).q[j][2] = 1)
                     THEN {"overflow-not-marked"} ELSE {})
             \* a queue that overflowed and was then drained: the batch that is delivered carries the mark
             \cup (IF \E j \in 1..Len(marked(p)) : j <= Len(bo1(p)) /\ bo1(p)[j] /\ marked(p)[j] = 0
                     THEN {"overflow-not-marked-in-delivered-values"} ELSE {})
      g2 == [eq |-> [p \in Pairs |-> IF ~has(p) THEN <<>> ELSE IF drained(p) THEN <<>> ELSE eq1(p)],
             lastv |-> [p \in Pairs |-> IF newItem(p) \/ ~has(p) THEN NoVal ELSE it(p).last],
             dold |-> [p \in Pairs |-> IF newItem(p) \/ modItem(p) THEN e.dold ELSE g.dold[p]],
             batches |-> [p \in Pairs |-> IF ~has(p) THEN <<>>
                                          ELSE SubSeq(b1(p), Len(got(p)) + 1, Len(b1(p)))],
             ovf |-> [p \in Pairs |-> IF ~has(p) \/ drained(p) THEN FALSE ELSE ovf1(p)],
             bovf |-> [p \in Pairs |-> IF ~has(p) THEN <<>> ELSE SubSeq(bo1(p), Len(got(p)) + 1, Len(bo1(p)))]]
  IN [g |-> g2, viol |-> UNION {v(p) : p \in Pairs}]

-----------------------------------------------------------------------------
(* C26  Timestamps and clock jumps cannot crash; BadTimeout only after the  *)
(*      request's timeout                                                   *)
M26Init == [reqs |-> {}]     \* set of [id, ts, hint]
TimeoutOf(h) == IF h > 0 /\ h < ReqTimeout THEN h ELSE ReqTimeout
Mon26Step(g, e) ==
  LET g1 == IF e.ev = "Pub" THEN [g EXCEPT !.reqs = @ \cup {[id |-> e.req, ts |-> e.ts, hint |-> e.hint]}] ELSE g
      vf == IF e.fail # "none" /\ e.ev \in {"Tick", "Pub"} THEN {"fail:" \o e.site} ELSE {}
      touts == IF e.fail = "none" /\ e.ev = "Tick"
               THEN {e.out[j].req : j \in {k \in 1..Len(e.out) : e.out[k].k = "FAULT" /\ e.out[k].code = "BadTimeout"}}
               ELSE {}
      early == {id \in touts : \E q \in g1.reqs : q.id = id /\ ~(e.t - q.ts > TimeoutOf(q.hint))}
      answered == IF e.fail = "none" THEN {Resps(e)[j].req : j \in 1..Len(Resps(e))} ELSE {}
  IN [g |-> [g1 EXCEPT !.reqs = {q \in @ : q.id \notin answered}],
      viol |-> vf \cup (IF early # {} THEN {"timeout-before-deadline"} ELSE {})]

-----------------------------------------------------------------------------
(* C27  Higher-priority subscriptions are served first                      *)
M27Init == [prio |-> [i \in SubIds |-> 0], nq |-> [i \in SubIds |-> 0]]
\* Served in this record: by a timer tick, the subscriptions of the responses it produced (e.out); by a publish request
\* (whose responses stay in the server's response queue until the next timer tick), the subscriptions whose number of
\* pending notifications went down. Left unserved: the subscriptions that still have notifications pending afterwards.
Mon27Step(g, e) ==
  LET g1 == IF e.ev \in {"CreateSub", "ModifySub"} THEN [g EXCEPT !.prio[e.sub] = e.prio] ELSE g
      nqNow == [i \in SubIds |-> IF HasSub(e, i) THEN StSub(e, i).nq ELSE 0]
      g2 == [g1 EXCEPT !.nq = nqNow]
  IN
  IF e.fail # "none" \/ e.ev \notin {"Tick", "Pub"} THEN [g |-> g2, viol |-> {}]
  ELSE
  LET served == IF e.ev = "Tick" THEN {e.out[j].sub : j \in {k \in 1..Len(e.out) : IsMsg(e.out[k])}}
                ELSE {i \in SubIds : nqNow[i] < g.nq[i]}
      unserved == {i \in SubIds : nqNow[i] > 0}
      bad == \E a \in served, b \in unserved : a \in SubIds /\ b \in SubIds /\ g1.prio[a] < g1.prio[b]
  IN [g |-> g2, viol |-> IF bad THEN {"lower-priority-served-first"} ELSE {}]

-----------------------------------------------------------------------------
(* C40  Republish and acknowledgement see the same retained notifications   *)
M40Init == [ret |-> {}, acked |-> {}, exp |-> {}, risk |-> FALSE, pend |-> 0]
\* ret: set of [sub, seq, k, vals]; acked: set of <<sub, seq>>; exp: set of [req, codes]

Mon40Step(g, e) ==
  IF e.fail # "none" THEN [g |-> g, viol |-> {}]
  ELSE
  LET live == {e.st.subs[j].id : j \in 1..Len(e.st.subs)}
      isRet(g0, a) == \E x \in g0.ret : x.sub = a[1] /\ x.seq = a[2]
      \* --- acknowledgements carried by a publish request: prediction made when the request is received
      \* a publish request that is refused (BadNoSubscription, BadTooManyPublishRequests) acknowledges nothing
      accepted == e.ev = "Pub" /\ ~(\E j \in 1..Len(e.out) : e.out[j].k = "FAULT" /\ e.out[j].req = e.req)
      expCodes == IF ~accepted THEN <<>>
                  ELSE [j \in 1..Len(e.acks) |->
                         IF g.risk THEN "any"
                         ELSE IF isRet(g, e.acks[j]) /\ e.acks[j] \notin g.acked
                                 /\ ~(\E k \in 1..(j-1) : e.acks[k] = e.acks[j]) THEN "Good"
                         \* (responses still waiting in the server's response queue are not known to the monitor)
                         ELSE IF ~isRet(g, e.acks[j]) /\ e.acks[j][1] \in live /\ g.pend = 0 THEN "BadSequenceNumberUnknown"
                         ELSE "any"]
      g1 == IF e.ev = "CreateSub"          \* a re-used subscription id starts a new incarnation
            THEN [g EXCEPT !.ret = {x \in @ : x.sub # e.sub}, !.acked = {a \in @ : a[1] # e.sub}]
            ELSE IF accepted
            THEN [g EXCEPT !.exp = @ \cup {[req |-> e.req, codes |-> expCodes]},
                           !.acked = @ \cup {e.acks[j] : j \in {k \in 1..Len(e.acks) : expCodes[k] = "Good"}}]
            ELSE g
      rs == Resps(e)
      msgs == {j \in 1..Len(rs) : IsMsg(rs[j])}
      \* --- results reported with the response of that request
      vres == UNION {
                LET r == rs[j]
                    xs == {x \in g1.exp : x.req = r.req}
                IN IF xs = {} THEN {}
                   ELSE LET c == (CHOOSE x \in xs : TRUE).codes IN
                        IF Len(r.res) # Len(c) THEN {"ack-results-length"}
                        ELSE UNION {IF c[k] # "any" /\ r.res[k] # c[k] THEN {"ack-result-wrong:" \o c[k]} ELSE {} : k \in 1..Len(c)}
                : j \in msgs}
      ret1 == g1.ret \cup {[sub |-> rs[j].sub, seq |-> rs[j].seq, k |-> rs[j].k, vals |-> rs[j].vals] : j \in msgs}
      ret2 == {x \in ret1 : x.sub \in live}
      unacked == {x \in ret2 : <<x.sub, x.seq>> \notin g1.acked}
      risk1 == g1.risk \/ Cardinality(unacked) > 4 * Cardinality(live)
      \* --- republish
      vrep == IF e.ev # "Republish" THEN {}
              ELSE LET r == e.out[1]
                       a == <<e.sub, e.seq>>
                       hit == {x \in g1.ret : x.sub = e.sub /\ x.seq = e.seq}
                   IN (IF r.code = "Good" /\ hit # {} /\ (\A x \in hit : ~(x.k = r.k /\ x.vals = r.vals /\ x.seq = r.seq))
                         THEN {"republish-differs-from-original"} ELSE {})
                      \cup (IF r.code = "Good" /\ a \in g1.acked THEN {"republish-after-good-ack"} ELSE {})
                      \cup (IF r.code # "Good" /\ hit # {} /\ a \notin g1.acked /\ e.sub \in live /\ ~g1.risk
                              THEN {"retained-notification-not-republishable"} ELSE {})
      answered == {rs[j].req : j \in 1..Len(rs)}
  IN [g |-> [g1 EXCEPT !.ret = unacked, !.risk = risk1, !.exp = {x \in @ : x.req \notin answered}, !.pend = e.st.nresp],
      viol |-> vres \cup vrep]

=============================================================================
