------------------------------ MODULE NodeMgmt ------------------------------
(***************************************************************************)
(* L1 specification of the NodeManagement service set as carried out by     *)
(* server/services/node_management.rs on the address space, for a small      *)
(* universe: parent folder 0, node ids 1..K (explicitly requested or server  *)
(* assigned from a counter that starts at 1), 9 = an id that never exists.   *)
(* Observation record: status (and id) returned, then the nodes and the      *)
(* references of the universe as Browse sees them.                           *)
(***************************************************************************)
EXTENDS Integers, Sequences, FiniteSets, SequencesExt, TLC

CONSTANTS K, Types, Names,
          DevRefFromChild,      \* AddNodes inserts the reference from the new node to the parent
          DevAutoIdCollision    \* a server assigned id that already exists is reported Good without inserting

VARIABLES nodes, refs, names, nextAuto, evt
vars == <<nodes, refs, names, nextAuto, evt>>

Hier(t) == t \in {"HC", "OR", "HP"}
TripLess(x, y) == x[1] < y[1] \/ (x[1] = y[1] /\ (x[3] < y[3] \/ (x[3] = y[3] /\ (x[2] = "HC" /\ y[2] # "HC"))))
Proj(n, r) == [nodes |-> SetToSortSeq(n, <), refs |-> SetToSortSeq(r, TripLess)]
P == Proj(nodes', refs')

Init == /\ nodes = {0} /\ refs = {} /\ names = [i \in 0..K |-> ""] /\ nextAuto = 1 /\ evt = [ev |-> "Init"]

RECURSIVE FreeFrom(_, _)
FreeFrom(i, S) == IF i \in S THEN FreeFrom(i + 1, S) ELSE i

\* AddNodes, one item: object node, type definition BaseObjectType
AddNode(par, t, rid, name) ==
  LET dup == \E c \in nodes : names[c] = name /\ \E tt \in Types : Hier(tt) /\ <<par, tt, c>> \in refs
      auto == rid = 0
      consumes == auto /\ ~(dup)                       \* the counter moves once the name check has passed
      cand == IF auto THEN (IF DevAutoIdCollision THEN nextAuto ELSE FreeFrom(nextAuto, nodes)) ELSE rid
      status == IF ~auto /\ rid \in nodes THEN "BadNodeIdExists"
                ELSE IF par \in nodes /\ dup THEN "BadBrowseNameDuplicated"
                ELSE IF par \notin nodes THEN "BadParentNodeIdInvalid"
                ELSE IF cand > K THEN "BadOutOfRange"          \* outside the modelled universe (not generated)
                ELSE "Good"
      collide == status = "Good" /\ cand \in nodes               \* only with DevAutoIdCollision
      ok == status = "Good" /\ ~collide
      edge == IF DevRefFromChild THEN <<cand, t, par>> ELSE <<par, t, cand>>
  IN /\ status # "BadOutOfRange"
     /\ nodes' = IF ok THEN nodes \cup {cand} ELSE nodes
     /\ refs' = IF ok \/ collide THEN refs \cup {edge} ELSE refs
     /\ names' = IF ok THEN [names EXCEPT ![cand] = name] ELSE names
     /\ nextAuto' = IF consumes /\ status \in {"Good", "BadParentNodeIdInvalid"} THEN cand + 1 ELSE nextAuto
     /\ evt' = [ev |-> "AddNode", par |-> par, t |-> t, rid |-> rid, name |-> name, fail |-> "none",
                status |-> status, id |-> IF status = "Good" THEN cand ELSE -1, st |-> P]

\* AddReferences, one item (target class Object)
AddRef(a, t, b, fwd) ==
  LET e == IF fwd THEN <<a, t, b>> ELSE <<b, t, a>>
      status == IF a \notin nodes THEN "BadSourceNodeIdInvalid"
                ELSE IF b \notin nodes THEN "BadTargetNodeIdInvalid"
                ELSE IF <<a, t, b>> \in refs THEN "BadDuplicateReferenceNotAllowed"
                ELSE "Good"
  IN /\ a # b
     /\ refs' = IF status = "Good" THEN refs \cup {e} ELSE refs
     /\ UNCHANGED <<nodes, names, nextAuto>>
     /\ evt' = [ev |-> "AddRef", a |-> a, t |-> t, b |-> b, fwd |-> fwd, fail |-> "none", status |-> status, id |-> -1, st |-> P]

\* DeleteReferences, one item
DelRef(a, t, b, fwd, bidir) ==
  LET status == IF a \notin nodes THEN "BadSourceNodeIdInvalid"
                ELSE IF b \notin nodes THEN "BadTargetNodeIdInvalid" ELSE "Good"
      gone == IF bidir THEN {<<a, t, b>>, <<b, t, a>>} ELSE IF fwd THEN {<<a, t, b>>} ELSE {<<b, t, a>>}
  IN /\ a # b
     /\ refs' = IF status = "Good" THEN refs \ gone ELSE refs
     /\ UNCHANGED <<nodes, names, nextAuto>>
     /\ evt' = [ev |-> "DelRef", a |-> a, t |-> t, b |-> b, fwd |-> fwd, bidir |-> bidir, fail |-> "none",
                status |-> status, id |-> -1, st |-> P]

\* DeleteNodes, one item (AddressSpace::delete): the given id and everything reachable from it over HasComponent / HasProperty
\* references are visited (references that an earlier delete left behind are followed too); visited nodes are removed; with
\* delete_target_references every reference from or to a visited id goes too, without it the references stay behind. The
\* status is Good when anything went away: a visited node, or (with the flag) references of a visited id.
CONSTANT DevChildResultIgnored      \* only the given id counts for the status, not what was removed below it
RECURSIVE CloE(_, _)
CloE(S, k) == IF k = 0 THEN S ELSE CloE(S \cup {r[3] : r \in {x \in refs : x[1] \in S /\ x[2] \in {"HC", "HP"}}}, k - 1)
DelNode(n, tr) ==
  LET visited == CloE({n}, K + 1)
      touched(v) == \E r \in refs : r[1] = v \/ r[3] = v
      counts == IF DevChildResultIgnored THEN {n} ELSE visited
      status == IF \E v \in counts : v \in nodes \/ (tr /\ touched(v)) THEN "Good" ELSE "BadNodeIdUnknown"
  IN /\ nodes' = nodes \ visited
     /\ refs' = IF tr THEN {r \in refs : r[1] \notin visited /\ r[3] \notin visited} ELSE refs
     /\ UNCHANGED <<names, nextAuto>>
     /\ evt' = [ev |-> "DelNode", a |-> n, tr |-> tr, fail |-> "none", status |-> status, id |-> -1, st |-> P]

=============================================================================
