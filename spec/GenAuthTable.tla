----------------------------- MODULE GenAuthTable -----------------------------
EXTENDS MCAuthTable, Json
Emit == PrintT(<<"CASE", ToJson([c |-> c, exp |-> Auth(c).ok])>>)
=============================================================================
