------------------------------- MODULE Session -------------------------------
(***************************************************************************)
(* L1 specification of sessions as the server keeps them                    *)
(* (server/services/message_handler.rs validate_service_request,            *)
(* server/services/session.rs, server/session.rs): connections with a       *)
(* current secure channel id, sessions found by authentication token in a   *)
(* session manager that is shared by the connections of the server, and the *)
(* services dispatched on them.                                             *)
(*                                                                          *)
(* Tokens are small integers: 1..NSlots = the token handed out by the k-th  *)
(* successful CreateSession of the history (a closed one is "stale"),       *)
(* 8 = a forged token, 0 = the null token.                                  *)
(* Channel ids are abstract: the n-th distinct id the server hands out.     *)
(* Time is abstract: Tick(d) lets d units pass; a session has a timeout tmo  *)
(* (0 = never, 2 = "between 2 and 3 units") and an idle clock that restarts  *)
(* whenever the server records a request of the session.                     *)
(* Every action yields one observation record `evt' (same fields for every  *)
(* event so that a field has one type).                                     *)
(***************************************************************************)
EXTENDS Integers, Sequences, FiniteSets, TLC

CONSTANTS NConns, NSlots,
          Secure,            \* TRUE: the endpoint is encrypted (Basic256Sha256), FALSE: policy None
          DevChanPerConn,    \* pinned tree: every connection numbers its secure channels 1, 2, ... on its own
          DevStaleNonce      \* pinned tree: on a policy None endpoint the session nonce is always empty (never renewed)

VARIABLES sess, chan, cnt, evt
vars == <<sess, chan, cnt, evt>>

Conns == 1..NConns
Slots == 1..NSlots
Forged == 8
Null == 0
NonceKinds == {"userenc", "x509"}          \* identity tokens that are bound to the session nonce

Free == [state |-> "free", act |-> FALSE, conn |-> 0, chan |-> 0, tmo |-> 0, idle |-> 0, gen |-> 0]
TimedOut(s) == s.state = "open" /\ s.tmo > 0 /\ s.idle > s.tmo

\* the secure channel ids handed out so far: cnt[0] server wide, cnt[c] by connection c
NewChan(c) == IF DevChanPerConn THEN cnt[c] + 1 ELSE cnt[0] + 1
Bump(c) == [cnt EXCEPT ![0] = @ + 1, ![c] = @ + 1]

Init ==
  /\ sess = [s \in Slots |-> Free]
  \* every connection has opened its secure channel, in the order 1, 2, ...
  /\ chan = [c \in Conns |-> IF DevChanPerConn THEN 1 ELSE c]
  /\ cnt = [c \in {0} \cup Conns |-> IF c = 0 THEN NConns ELSE 1]
  /\ evt = [ev |-> "Init"]

Live(t) == t \in Slots /\ sess[t].state = "open"
Proj(ss) == [s \in Slots |-> [state |-> ss[s].state, act |-> ss[s].act, chan |-> ss[s].chan, to |-> TimedOut(ss[s])]]

Rec(ev, c, t, kind, cred, g, class, code, effect, ss, ch) ==
  [ev |-> ev, conn |-> c, tok |-> t, kind |-> kind, cred |-> cred, g |-> g, fail |-> "none", d |-> 0, tmo |-> 0,
   class |-> class, code |-> code, effect |-> effect,
   chan |-> IF c \in Conns THEN ch[c] ELSE 0,                   \* the connection's current channel id (a fact)
   beyond |-> IF t \in Slots THEN TimedOut(ss[t]) ELSE FALSE,   \* what the server's own bookkeeping says (not used by the judge)
   st |-> Proj(ss)]

-----------------------------------------------------------------------------
CreateSession(c, tmo) ==
  /\ \E s \in Slots : sess[s].state = "free"
  /\ LET s == CHOOSE x \in Slots : sess[x].state = "free" /\ \A y \in Slots : sess[y].state = "free" => x <= y
         ss == [sess EXCEPT ![s] = [state |-> "open", act |-> FALSE, conn |-> c, chan |-> chan[c], tmo |-> tmo, idle |-> 0, gen |-> 0]]
     IN /\ sess' = ss
        /\ evt' = [Rec("Create", c, s, "", "", 0, "ok", "Good", FALSE, ss, chan) EXCEPT !.tmo = tmo]
  /\ UNCHANGED <<chan, cnt>>

\* kind: anon | user (plain password) | userenc (password encrypted with the nonce of generation g) |
\*       x509 (signature over the nonce of generation g);  cred: good | bad
AuthOK(t, kind, cred, g) ==
  /\ cred = "good"
  /\ kind \in NonceKinds => (g = sess[t].gen \/ (DevStaleNonce /\ ~Secure))

ActivateSession(c, t, kind, cred, g) ==
  LET s == sess[t]
      code == IF ~Live(t) THEN "BadSessionIdInvalid"
              ELSE IF TimedOut(s) THEN "BadSessionIdInvalid"
              ELSE IF ~AuthOK(t, kind, cred, g) THEN "BadAuth"
              ELSE IF ~s.act /\ s.chan # chan[c] THEN "BadSecureChannelIdInvalid"
              ELSE "Good"
      ss == IF ~Live(t) \/ TimedOut(s) THEN sess              \* a request refused for the timeout changes nothing
            \* the request is recorded as activity of the session whether the activation succeeds or not
            ELSE IF code = "Good" THEN [sess EXCEPT ![t].act = TRUE, ![t].chan = chan[c], ![t].conn = c, ![t].gen = @ + 1, ![t].idle = 0]
            ELSE [sess EXCEPT ![t].act = FALSE, ![t].idle = 0]   \* a failed activation de-activates the session
  IN /\ sess' = ss
     /\ evt' = Rec("Activate", c, t, kind, cred, g, IF code = "Good" THEN "ok" ELSE "fault", code, FALSE, ss, chan)
     /\ UNCHANGED <<chan, cnt>>

CloseSession(c, t, del) ==
  LET s == sess[t]
      code == IF ~Live(t) THEN "BadSessionIdInvalid"
              ELSE IF ~s.act /\ s.chan # chan[c] THEN "BadSecureChannelIdInvalid"
              ELSE "Good"
      ss == IF code = "Good" THEN [sess EXCEPT ![t].state = "closed", ![t].act = FALSE] ELSE sess
  IN /\ sess' = ss
     /\ evt' = Rec("Close", c, t, IF del THEN "del" ELSE "keep", "", 0, IF code = "Good" THEN "ok" ELSE "fault", code, FALSE, ss, chan)
     /\ UNCHANGED <<chan, cnt>>

\* kind: Read | Browse (no visible effect), Write | CreateSub (visible effect when carried out)
Service(c, kind, t) ==
  LET code == IF ~Live(t) THEN "BadSessionIdInvalid"
              ELSE IF ~sess[t].act THEN "BadSessionNotActivated"
              ELSE IF sess[t].chan # chan[c] THEN "BadSessionIdInvalid"
              ELSE IF TimedOut(sess[t]) THEN "BadSessionIdInvalid"
              ELSE "Good"
      ss == IF code = "Good" THEN [sess EXCEPT ![t].idle = 0] ELSE sess      \* only a request that is carried out is recorded
  IN /\ sess' = ss
     /\ evt' = Rec("Service", c, t, kind, "", 0, IF code = "Good" THEN "ok" ELSE "fault", code,
                   code = "Good" /\ kind \in {"Write", "CreateSub"}, ss, chan)
     /\ UNCHANGED <<chan, cnt>>

\* GetEndpoints | FindServers: no session needed
Discovery(c, kind) ==
  /\ evt' = Rec("Discovery", c, Null, kind, "", 0, "ok", "Good", FALSE, sess, chan)
  /\ UNCHANGED <<sess, chan, cnt>>

\* the client opens a new secure channel on the connection
ChannelChange(c) ==
  LET ch == [chan EXCEPT ![c] = NewChan(c)]
  IN /\ chan' = ch /\ cnt' = Bump(c)
     /\ evt' = Rec("ChannelChange", c, Null, "", "", 0, "ok", "Good", FALSE, sess, ch)
     /\ UNCHANGED sess

\* d units of time pass (the idle clocks are capped just beyond the timeout)
Tick(d) ==
  LET ss == [s \in Slots |-> IF sess[s].state = "open" /\ sess[s].tmo > 0
                              THEN [sess[s] EXCEPT !.idle = IF @ + d > sess[s].tmo THEN sess[s].tmo + 1 ELSE @ + d] ELSE sess[s]]
  IN /\ sess' = ss
     /\ evt' = [Rec("Tick", 0, Null, "", "", 0, "ok", "Good", FALSE, ss, chan) EXCEPT !.d = d]
     /\ UNCHANGED <<chan, cnt>>
=============================================================================
