---------------------------- MODULE GenServicesPairs ----------------------------
(* every behaviour of two likely-to-succeed requests on one session (each followed by timer ticks and a probe) *)
EXTENDS Services, Json
VARIABLE c
Init == c \in Pairs
Next == UNCHANGED c
Spec == Init /\ [][Next]_c
Emit == PrintT(<<"CASE", ToJson([steps |-> <<c[1], c[2]>>])>>)
=============================================================================
