------------------------------ MODULE TextForms ------------------------------
(***************************************************************************)
(* C04 / C05  Textual forms of identifiers and relative paths.              *)
(*                                                                          *)
(* Text is a sequence of Unicode code points (TLC can neither index into   *)
(* its own strings nor print non-ASCII reliably); <<110,115,61>> is "ns=". *)
(*                                                                          *)
(* L1 (specified printers): the canonical string forms of                   *)
(*   OPC UA Part 6 5.3.1.10 (NodeId), 5.3.1.11 (ExpandedNodeId),            *)
(*   Part 6 5.1.3 Guid, Part 4 7.22 / A.3 (NumericRange), ISO 8601         *)
(*   (DateTime), Part 4 A.2 (RelativePath BNF).                             *)
(* L2 (the properties): for every abstract value v of the spaces below the  *)
(*   real code must print a text that the real parser maps back to v        *)
(*   (RoundTripViol), and no parser may fail on any string (ParseViol).     *)
(* The design obligation discharged by TLC on L1: every printer is          *)
(* injective on its value space (a parser with Parse(Print(v)) = v exists). *)
(*                                                                          *)
(* u32 numbers are BigNat pairs <<hi, lo>> (TLC integers are 32 bit).       *)
(*                                                                          *)
(* The large value spaces are operators of their bounds (TLC evaluates      *)
(* zero-arity constant definitions eagerly in every run, also in the judge).*)
(***************************************************************************)
EXTENDS Integers, Sequences, FiniteSets, TLC, BigNat

-----------------------------------------------------------------------------
(* text helpers                                                              *)
RECURSIVE Dec(_)
Dec(n) == IF n < 10 THEN <<48 + n>> ELSE Dec(n \div 10) \o <<48 + (n % 10)>>
Zeros(k) == [i \in 1..k |-> 48]
Pad(n, w) == LET d == Dec(n) IN IF Len(d) >= w THEN d ELSE Zeros(w - Len(d)) \o d
\* decimal numeral of hi * 65536 + lo without leaving 31 bits
DecU32(b) == LET low == b[1] * 536 + b[2]
                 k == b[1] * 65 + low \div 1000
                 r == low % 1000
             IN IF k = 0 THEN Dec(r) ELSE Dec(k) \o Pad(r, 3)
RECURSIVE Flat(_)
Flat(ss) == IF ss = <<>> THEN <<>> ELSE Head(ss) \o Flat(Tail(ss))
RECURSIVE Join(_, _)
Join(ss, sep) == IF ss = <<>> THEN <<>> ELSE IF Len(ss) = 1 THEN ss[1] ELSE ss[1] \o sep \o Join(Tail(ss), sep)
Map(f(_), s) == [i \in 1..Len(s) |-> f(s[i])]
SeqsUpTo(A, n) == UNION {[1..k -> A] : k \in 0..n}
NonEmptySeqsUpTo(A, n) == UNION {[1..k -> A] : k \in 1..n}

HexD(n) == IF n < 10 THEN 48 + n ELSE 87 + n                    \* lower case
Hex2(b) == <<HexD(b \div 16), HexD(b % 16)>>
HexOf(bs) == Flat(Map(Hex2, bs))

B64Ch(i) == IF i < 26 THEN 65 + i ELSE IF i < 52 THEN 71 + i ELSE IF i < 62 THEN i - 4 ELSE IF i = 62 THEN 43 ELSE 47
RECURSIVE B64(_)
B64(b) ==
  IF Len(b) = 0 THEN <<>>
  ELSE IF Len(b) = 1 THEN <<B64Ch(b[1] \div 4), B64Ch((b[1] % 4) * 16), 61, 61>>
  ELSE IF Len(b) = 2 THEN <<B64Ch(b[1] \div 4), B64Ch((b[1] % 4) * 16 + b[2] \div 16), B64Ch((b[2] % 16) * 4), 61>>
  ELSE <<B64Ch(b[1] \div 4), B64Ch((b[1] % 4) * 16 + b[2] \div 16), B64Ch((b[2] % 16) * 4 + b[3] \div 64), B64Ch(b[3] % 64)>>
       \o B64(SubSeq(b, 4, Len(b)))

-----------------------------------------------------------------------------
(* C04 value spaces                                                          *)
Namespaces == {0, 1, 9, 10, 65535}
U32Points == {Big(0), Big(1), Big(255), Big(65536), Big(2147483647), BigU32Max}

StrPayloads == {
  <<97>>,                                  \* a
  <<97, 59, 98>>,                          \* a;b
  <<97, 61, 98>>,                          \* a=b
  <<110, 115, 61, 49, 59, 105, 61, 50>>,   \* ns=1;i=2   (looks like a node id)
  <<115, 61, 120>>,                        \* s=x
  <<72, 101, 108, 108, 111, 32, 87, 111, 114, 108, 100>>,  \* Hello World
  <<32>>,                                  \* a blank
  <<233, 8364>>,                           \* e-acute, euro sign (2 and 3 byte UTF-8)
  <<128512>>,                              \* 4 byte UTF-8
  <<97, 10, 98>>                           \* a, line feed, b
}
GuidPayloads == {
  [i \in 1..16 |-> 0], [i \in 1..16 |-> 255],
  <<114, 150, 43, 145, 250, 117, 74, 230, 141, 40, 180, 4, 220, 125, 175, 99>>   \* 72962B91-FA75-4AE6-8D28-B404DC7DAF63
}
BytePayloads == {
  <<0>>, <<1, 2>>, <<251, 255>>, <<255, 254, 253>>, <<104, 105, 33, 63>>,
  <<51, 244, 91, 40, 27, 17, 86, 71, 143, 9, 227, 220, 199, 110, 40, 68>>          \* M/RbKBsRVkePCePcx24oRA== (Part 6)
}
Idents == {[k |-> "i", n |-> p] : p \in U32Points} \cup {[k |-> "s", s |-> x] : x \in StrPayloads}
          \cup {[k |-> "g", g |-> x] : x \in GuidPayloads} \cup {[k |-> "b", b |-> x] : x \in BytePayloads}
NodeIds == {[ns |-> n, id |-> i] : n \in Namespaces, i \in Idents}

NoUri == [some |-> FALSE, s |-> <<>>]
Uris == {
  <<117, 114, 110, 58, 120>>,              \* urn:x
  <<117, 37, 114, 59, 110>>,               \* u%r;n
  <<37, 51, 98>>,                          \* %3b   (the escape of ';' as literal text)
  <<37, 50, 53, 59>>,                      \* %25;
  <<104, 116, 116, 112, 58, 47, 47, 102, 111, 111, 47, 233>>   \* http://foo/e-acute
}
ServerIndexes == {Big(0), Big(1), BigU32Max}
\* with a namespace URI the namespace index is not part of the value (Part 4 7.11: it is ignored): only index 0
ExpandedIds ==
  {[ns |-> n, id |-> i, uri |-> NoUri, svr |-> s] : n \in Namespaces, i \in Idents, s \in ServerIndexes}
  \cup {[ns |-> 0, id |-> i, uri |-> [some |-> TRUE, s |-> u], svr |-> s] : i \in Idents, u \in Uris, s \in ServerIndexes}

\* NumericRange: [multi, dims]; a dimension is <<index>> or <<low, high>> with low < high
RangePoints == {Big(0), Big(1), Big(9), Big(10), BigU32Max}
Dims == {<<a>> : a \in RangePoints} \cup {d \in RangePoints \X RangePoints : BLt(d[1], d[2])}
TenDims == [i \in 1..10 |-> IF i % 2 = 0 THEN <<Big(i)>> ELSE <<Big(i), BigU32Max>>]
Ranges(deep) == {[multi |-> FALSE, dims |-> <<>>]} \cup {[multi |-> FALSE, dims |-> <<d>>] : d \in Dims}
          \cup {[multi |-> TRUE, dims |-> <<d1, d2>>] : d1 \in Dims, d2 \in Dims}
          \cup {[multi |-> TRUE, dims |-> TenDims]}          \* the largest number of dimensions the implementation accepts
          \cup IF deep THEN {[multi |-> TRUE, dims |-> <<d1, d2, d3>>] : d1 \in Dims, d2 \in Dims, d3 \in Dims} ELSE {}

\* DateTime: calendar fields and t = 100 ns ticks within the second; in range = 1601-01-01 .. 9999-12-31T23:59:59
Dates == {<<1601, 1, 1>>, <<1969, 12, 31>>, <<1970, 1, 1>>, <<2000, 2, 29>>, <<2038, 1, 19>>, <<9999, 12, 31>>}
Times == {<<0, 0, 0>>, <<12, 34, 56>>, <<23, 59, 59>>}
Ticks == {0, 1, 10, 10000, 1230000, 9995000, 9999999}
DateTimes == {[y |-> d[1], mo |-> d[2], d |-> d[3], h |-> t[1], mi |-> t[2], s |-> t[3], t |-> f] : d \in Dates, t \in Times, f \in Ticks}
             \ {x \in [y : {9999}, mo : {12}, d : {31}, h : {23}, mi : {59}, s : {59}, t : Ticks] : x.t > 0}
DtForms == {"display", "rfc3339"}     \* Display/FromStr (full precision) and to_rfc3339/parse_from_rfc3339 (milliseconds)

-----------------------------------------------------------------------------
(* C04 specified printers (L1)                                               *)
PrintGuid(g) == HexOf(SubSeq(g, 1, 4)) \o <<45>> \o HexOf(SubSeq(g, 5, 6)) \o <<45>> \o HexOf(SubSeq(g, 7, 8)) \o <<45>>
                \o HexOf(SubSeq(g, 9, 10)) \o <<45>> \o HexOf(SubSeq(g, 11, 16))
PrintIdent(id) == CASE id.k = "i" -> <<105, 61>> \o DecU32(id.n)
                    [] id.k = "s" -> <<115, 61>> \o id.s
                    [] id.k = "g" -> <<103, 61>> \o PrintGuid(id.g)
                    [] id.k = "b" -> <<98, 61>> \o B64(id.b)
\* ns=<namespaceindex>;<type>=<value>, "ns=0;" omitted
PrintNodeId(v) == (IF v.ns # 0 THEN <<110, 115, 61>> \o Dec(v.ns) \o <<59>> ELSE <<>>) \o PrintIdent(v.id)
\* '%' and ';' of the URI are written as %25 and %3B
EscUri(u) == Flat(Map(LAMBDA c : IF c = 37 THEN <<37, 50, 53>> ELSE IF c = 59 THEN <<37, 51, 66>> ELSE <<c>>, u))
\* svr=<serverindex>;ns=<namespaceindex>;<type>=<value>  or  svr=<serverindex>;nsu=<uri>;<type>=<value>; zero indexes omitted
PrintExpanded(v) == (IF ~BEq(v.svr, Big(0)) THEN <<115, 118, 114, 61>> \o DecU32(v.svr) \o <<59>> ELSE <<>>)
                    \o (IF v.uri.some THEN <<110, 115, 117, 61>> \o EscUri(v.uri.s) \o <<59>>
                        ELSE IF v.ns # 0 THEN <<110, 115, 61>> \o Dec(v.ns) \o <<59>> ELSE <<>>)
                    \o PrintIdent(v.id)
PrintDim(d) == IF Len(d) = 1 THEN DecU32(d[1]) ELSE DecU32(d[1]) \o <<58>> \o DecU32(d[2])
PrintRange(v) == Join(Map(PrintDim, v.dims), <<44>>)
\* the fraction: "display" = shortest of 0/3/6/9 digits that is exact (a tick is 100 ns), "rfc3339" = 3 digits, truncated
Frac(t, form) == IF form = "rfc3339" THEN <<46>> \o Pad(t \div 10000, 3)
                 ELSE IF t = 0 THEN <<>>
                 ELSE IF t % 10000 = 0 THEN <<46>> \o Pad(t \div 10000, 3)
                 ELSE IF t % 10 = 0 THEN <<46>> \o Pad(t \div 10, 6)
                 ELSE <<46>> \o Pad(t, 7) \o <<48, 48>>
PrintDateTime(v, form) == Pad(v.y, 4) \o <<45>> \o Pad(v.mo, 2) \o <<45>> \o Pad(v.d, 2) \o <<84>> \o Pad(v.h, 2) \o <<58>>
                          \o Pad(v.mi, 2) \o <<58>> \o Pad(v.s, 2) \o Frac(v.t, form)
                          \o IF form = "rfc3339" THEN <<90>> ELSE <<43, 48, 48, 58, 48, 48>>
\* the value a reader of the printed text can recover ("to the printed precision")
DtPrecision(v, form) == IF form = "rfc3339" THEN [v EXCEPT !.t = (v.t \div 10000) * 10000] ELSE v

-----------------------------------------------------------------------------
(* C05 value space                                                           *)
\* reference types are node ids: numeric [k "num"] or string [k "str"]; the text form carries a BROWSE NAME
RefNum(ns, n) == [k |-> "num", ns |-> ns, n |-> n, s |-> <<>>]
RefStr(ns, s) == [k |-> "str", ns |-> ns, n |-> 0, s |-> s]
Hier == RefNum(0, 33)
Aggr == RefNum(0, 44)
HasChild == RefNum(0, 34)
\* browse names of the standard reference types (the part of the Part 5 table the value space uses)
StdName(n) == CASE n = 33 -> <<72, 105, 101, 114, 97, 114, 99, 104, 105, 99, 97, 108, 82, 101, 102, 101, 114, 101, 110, 99, 101, 115>>
                [] n = 44 -> <<65, 103, 103, 114, 101, 103, 97, 116, 101, 115>>
                [] n = 34 -> <<72, 97, 115, 67, 104, 105, 108, 100>>
StdIds == {33, 44, 34}
ConnectedTo == <<67, 111, 110, 110, 101, 99, 116, 101, 100, 84, 111>>
CustomNames == {ConnectedTo, <<97, 62, 98>> (* a>b *), <<35, 97>> (* #a *), <<97, 47, 98, 38>> (* a/b& *), <<49, 58, 233>> (* 1:e-acute *)}
\* a reference type without a browse name known to the default resolver has no text form (numeric custom types)
UnnamedRefs == {RefNum(0, 9999), RefNum(1, 4000)}
RefTypes == {Hier, Aggr, HasChild} \cup {RefStr(ns, s) : ns \in {1, 10}, s \in CustomNames} \cup {RefStr(0, ConnectedTo)} \cup UnnamedRefs
Flags == {[inv |-> i, sub |-> s] : i \in BOOLEAN, s \in BOOLEAN}

Reserved == {38, 47, 46, 60, 62, 58, 35, 33}                   \* & / . < > : # !
NameAlpha == Reserved \cup {97, 49, 233}                        \* a 1 e-acute
NoTarget == [some |-> FALSE, ns |-> 0, name |-> <<>>]
Targets(n) == {NoTarget} \cup {[some |-> TRUE, ns |-> ns, name |-> nm] : ns \in Namespaces, nm \in NonEmptySeqsUpTo(NameAlpha, n)}
SmallTargets == {NoTarget, [some |-> TRUE, ns |-> 0, name |-> <<97>>], [some |-> TRUE, ns |-> 10, name |-> <<97, 62>>],
                 [some |-> TRUE, ns |-> 1, name |-> <<233>>], [some |-> TRUE, ns |-> 65535, name |-> <<38>>]}
Elem(rt, f, tg) == [rt |-> rt, inv |-> f.inv, sub |-> f.sub, tgt |-> tg]
\* one-element paths: every reference type x flags with a few targets (Deep: all names up to length 2), and every
\* target name up to NameMax with a few reference types
WideTargets(deep) == IF deep THEN Targets(2) ELSE SmallTargets
FocusRefs == {Hier, HasChild, RefStr(1, ConnectedTo)}
FocusFlags == {[inv |-> FALSE, sub |-> TRUE], [inv |-> TRUE, sub |-> FALSE]}
Elems1(deep, nameMax) ==
  {Elem(rt, f, tg) : rt \in RefTypes \ UnnamedRefs, f \in Flags, tg \in WideTargets(deep)}
  \cup {Elem(rt, f, tg) : rt \in UnnamedRefs, f \in Flags, tg \in SmallTargets}
  \cup {Elem(rt, f, tg) : rt \in FocusRefs, f \in FocusFlags, tg \in Targets(nameMax)}
\* the elements longer paths are built from: chosen so that element boundaries meet escapes, missing targets and digits
Tgt(ns, nm) == [some |-> TRUE, ns |-> ns, name |-> nm]
Fwd == [inv |-> FALSE, sub |-> TRUE]
PathElems == {
  Elem(Hier, Fwd, NoTarget),                                               \* /
  Elem(Hier, Fwd, Tgt(0, <<97>>)),                                           \* /a
  Elem(Aggr, Fwd, Tgt(10, <<98, 38>>)),                                      \* .10:b&&
  Elem(HasChild, [inv |-> TRUE, sub |-> TRUE], Tgt(1, <<97, 46, 98>>)),      \* <!HasChild>1:a&.b
  Elem(RefStr(1, ConnectedTo), [inv |-> FALSE, sub |-> FALSE], NoTarget),  \* <#1:ConnectedTo>
  Elem(Hier, Fwd, Tgt(65535, <<49>>)),                                       \* /65535:1
  Elem(RefStr(10, <<97, 62, 98>>), [inv |-> TRUE, sub |-> FALSE], Tgt(9, <<62>>)),   \* <#!10:a&>b>9:&>
  Elem(Aggr, Fwd, Tgt(0, <<233, 60>>))                                       \* .e-acute&<
}
LongPaths(pathMax) == UNION {[1..k -> PathElems] : k \in 2..pathMax}
Paths(deep, nameMax, pathMax) == {<<>>} \cup {<<e>> : e \in Elems1(deep, nameMax)} \cup LongPaths(pathMax)

-----------------------------------------------------------------------------
(* C05 specified printer (L1): Part 4 A.2                                    *)
(*   <relative-path> ::= <reference-type> <browse-name> [relative-path]      *)
(*   <reference-type> ::= '/' | '.' | '<' ['#'] ['!'] <browse-name> '>'      *)
(*   <browse-name> ::= [<namespace-index> ':'] <name>                        *)
(*   <name> ::= (<name-char> | '&' <reserved-char>) [<name>]                 *)
HasName(rt) == rt.k = "str" \/ (rt.k = "num" /\ rt.ns = 0 /\ rt.n \in StdIds)
NameOf(rt) == IF rt.k = "str" THEN rt.s ELSE StdName(rt.n)
EscName(nm) == Flat(Map(LAMBDA c : IF c \in Reserved THEN <<38, c>> ELSE <<c>>, nm))
PrintQName(ns, nm) == (IF ns # 0 THEN Dec(ns) \o <<58>> ELSE <<>>) \o EscName(nm)
PrintRefType(e) == IF e.sub /\ ~e.inv /\ e.rt = Hier THEN <<47>>
                   ELSE IF e.sub /\ ~e.inv /\ e.rt = Aggr THEN <<46>>
                   ELSE <<60>> \o (IF ~e.sub THEN <<35>> ELSE <<>>) \o (IF e.inv THEN <<33>> ELSE <<>>)
                        \o PrintQName(e.rt.ns, NameOf(e.rt)) \o <<62>>
PrintElem(e) == PrintRefType(e) \o IF e.tgt.some THEN PrintQName(e.tgt.ns, e.tgt.name) ELSE <<>>
PathPrintable(p) == \A i \in 1..Len(p) : HasName(p[i].rt)
PrintPath(p) == Flat(Map(PrintElem, p))

-----------------------------------------------------------------------------
(* the no-panic half: arbitrary strings                                      *)
\* n s u v r = ; i g b 1 and a three byte character
Alpha04 == {110, 115, 117, 118, 114, 61, 59, 105, 103, 98, 49, 8364}
\* thorough, for the numeric range / date / guid parsers: 0 1 9 : , - T Z . +
Alpha04b == {48, 49, 57, 58, 44, 45, 84, 90, 46, 43}
\* the reserved characters, a digit, a letter, a two byte character
Alpha05 == Reserved \cup {49, 97, 233}
\* one-character mutations of a printed text: replace / insert / delete
Mutants(txt, A) == {[i \in 1..Len(txt) |-> IF i = k THEN a ELSE txt[i]] : k \in 1..Len(txt), a \in A}
                   \cup {SubSeq(txt, 1, k) \o <<a>> \o SubSeq(txt, k + 1, Len(txt)) : k \in 0..Len(txt), a \in A}
                   \cup {SubSeq(txt, 1, k - 1) \o SubSeq(txt, k + 1, Len(txt)) : k \in 1..Len(txt)}
MutBase04 == {PrintNodeId([ns |-> 10, id |-> [k |-> "i", n |-> Big(255)]]),
              PrintNodeId([ns |-> 1, id |-> [k |-> "s", s |-> <<233, 8364>>]]),
              PrintNodeId([ns |-> 0, id |-> [k |-> "g", g |-> [i \in 1..16 |-> 255]]]),
              PrintNodeId([ns |-> 1, id |-> [k |-> "b", b |-> <<251, 255>>]]),
              <<115, 118, 114, 61, 49, 59>> \o PrintNodeId([ns |-> 1, id |-> [k |-> "i", n |-> Big(1)]]),          \* svr=1;ns=1;i=1
              <<115, 118, 114, 61, 49, 59, 110, 115, 117, 61, 117, 37, 50, 53, 59, 115, 61, 233>>,                \* svr=1;nsu=u%25;s=e-acute
              <<49, 58, 50, 44, 51>>,                                                                              \* 1:2,3
              PrintDateTime([y |-> 2000, mo |-> 2, d |-> 29, h |-> 12, mi |-> 34, s |-> 56, t |-> 1230000], "rfc3339"),
              PrintDateTime([y |-> 1601, mo |-> 1, d |-> 1, h |-> 0, mi |-> 0, s |-> 0, t |-> 1], "display")}
MutBase05 == {PrintPath(<<e>>) : e \in PathElems} \cup {PrintPath(<<e1, e2>>) : e1 \in PathElems, e2 \in {Elem(Hier, Fwd, Tgt(0, <<97>>))}}
\* every string up to length n over the alphabet and the mutants
Strings04(n, deep) == SeqsUpTo(Alpha04, n) \cup (IF deep THEN SeqsUpTo(Alpha04b, n) ELSE {}) \cup UNION {Mutants(t, Alpha04) : t \in MutBase04}
Strings05(n) == SeqsUpTo(Alpha05, n) \cup UNION {Mutants(t, Alpha05) : t \in MutBase05}

-----------------------------------------------------------------------------
(* cases: a record per kind (distinct field names keep TLC's set ordering total)                                    *)
ParseCase(s) == [t |-> "parse", str |-> s]
RoundTrip04(deep) ==
  {[t |-> "nodeid", nid |-> v] : v \in NodeIds} \cup {[t |-> "expanded", xid |-> v] : v \in ExpandedIds}
  \cup {[t |-> "guid", gid |-> v] : v \in GuidPayloads} \cup {[t |-> "range", rng |-> v] : v \in Ranges(deep)}
  \cup {[t |-> "datetime", dt |-> v, form |-> f] : v \in DateTimes, f \in DtForms}
RoundTrip05(deep, nameMax, pathMax) == {[t |-> "path", path |-> p] : p \in Paths(deep, nameMax, pathMax)}
Cases04(n, deep) == RoundTrip04(deep) \cup {ParseCase(s) : s \in Strings04(n, deep)}
Cases05(n, deep, nameMax, pathMax) == RoundTrip05(deep, nameMax, pathMax) \cup {ParseCase(s) : s \in Strings05(n)}

ValueOf(c) == CASE c.t = "nodeid" -> c.nid [] c.t = "expanded" -> c.xid [] c.t = "guid" -> c.gid [] c.t = "range" -> c.rng
                [] c.t = "datetime" -> DtPrecision(c.dt, c.form) [] c.t = "path" -> c.path
\* the specified text; <<0>> (a text no printer produces) where the value has no text form
Expected(c) == CASE c.t = "nodeid" -> [text |-> PrintNodeId(c.nid)] [] c.t = "expanded" -> [text |-> PrintExpanded(c.xid)]
                 [] c.t = "guid" -> [text |-> PrintGuid(c.gid)] [] c.t = "range" -> [text |-> PrintRange(c.rng)]
                 [] c.t = "datetime" -> [text |-> PrintDateTime(c.dt, c.form)]
                 [] c.t = "path" -> [text |-> IF PathPrintable(c.path) THEN PrintPath(c.path) ELSE <<0>>]
                 [] c.t = "parse" -> [text |-> c.str]
\* a short class of the value, part of the verdict clause (one signature per kind of value, not per value)
Class(c) == CASE c.t = "nodeid" -> "nodeid-" \o c.nid.id.k
              [] c.t = "expanded" -> "expanded-" \o (IF c.xid.uri.some THEN "nsu" ELSE IF c.xid.ns = 0 THEN "ns0" ELSE "ns") \o "-" \o c.xid.id.k
              [] c.t = "guid" -> "guid" [] c.t = "range" -> "range"
              [] c.t = "datetime" -> "datetime-" \o c.form
              [] c.t = "path" -> (IF PathPrintable(c.path) THEN "path" ELSE "path-unnamed-reftype") [] c.t = "parse" -> "parse"

-----------------------------------------------------------------------------
(* L2: the properties, on what the real code returned.                       *)
(* round trip observation r = [fail, stage, site, text, ok, v]:              *)
(*   fail "none" | "panic" (stage "print" | "parse"), text = printed text,   *)
(*   ok = the parser accepted it, v = the re-parsed value, re-abstracted.    *)
(* parse observation r = [res |-> sequence of [p, res, site]], res in        *)
(*   {"ok", "error", "panic"}                                                *)
\* which fields of a re-parsed path differ from the original (diagnosis only; any difference is a violation)
PathDiff(a, b) ==
  IF Len(a) # Len(b) THEN {"number-of-elements"}
  ELSE UNION {(IF a[i].rt # b[i].rt THEN {"reference-type"} ELSE {})
              \cup (IF a[i].inv # b[i].inv \/ a[i].sub # b[i].sub THEN {"flags"} ELSE {})
              \cup (IF a[i].tgt.some # b[i].tgt.some \/ a[i].tgt.ns # b[i].tgt.ns THEN {"target-namespace"} ELSE {})
              \cup (IF a[i].tgt.name # b[i].tgt.name THEN {"target-name"} ELSE {}) : i \in 1..Len(a)}

RoundTripViol(c, r) ==
  IF r.fail # "none" THEN {r.stage \o "-failed:" \o Class(c) \o ":" \o r.site}
  ELSE IF ~r.ok THEN {"printed-form-rejected-by-own-parser:" \o Class(c)}
  ELSE IF r.v = ValueOf(c) THEN {}
  ELSE IF c.t = "path" THEN {"reparsed-path-differs:" \o d : d \in PathDiff(c.path, r.v)}
  ELSE {"reparsed-value-differs:" \o Class(c)}

ParseViol(c, r) ==
  {"parser-failed:" \o r.res[i].p \o ":" \o r.res[i].site : i \in {j \in 1..Len(r.res) : r.res[j].res \notin {"ok", "error"}}}

TextViol(e) == IF e.c.t = "parse" THEN ParseViol(e.c, e.r) ELSE RoundTripViol(e.c, e.r)

-----------------------------------------------------------------------------
(* design obligation on L1: every specified printer is injective on its value space *)
Injective(S, P(_)) == Cardinality({P(v) : v \in S}) = Cardinality(S)
PrintersInjective04(deep) ==
  /\ Injective(NodeIds, PrintNodeId)
  /\ Injective(ExpandedIds, PrintExpanded)
  /\ Injective(GuidPayloads, PrintGuid)
  /\ Injective(Ranges(deep), PrintRange)
  /\ \A f \in DtForms : Cardinality({PrintDateTime(v, f) : v \in DateTimes}) = Cardinality({DtPrecision(v, f) : v \in DateTimes})
PrintersInjective05(deep, nameMax, pathMax) == Injective({p \in Paths(deep, nameMax, pathMax) : PathPrintable(p)}, PrintPath)
=============================================================================
