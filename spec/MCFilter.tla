------------------------------ MODULE MCFilter ------------------------------
EXTENDS Filter
VARIABLE c
Init == c \in Cases
Next == UNCHANGED c
Spec == Init /\ [][Next]_c
DesignOK == FilterViol([c |-> c, r |-> Rep(c)]) = {}
=============================================================================
