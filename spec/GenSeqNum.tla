------------------------------ MODULE GenSeqNum ------------------------------
(* Case generator of C12: every maximal behaviour of SeqNum.tla is printed as  *)
(* one JSON line (the observation records the specification predicts); the     *)
(* harness replays the Send / Move / Deliver steps on the real code.            *)
EXTENDS SeqNum, Json

VARIABLES hist

GInit == Init /\ hist = <<evt>>
GNext == Next /\ hist' = Append(hist, evt')
GSpec == GInit /\ [][GNext]_<<vars, hist>>

Emit == Done => PrintT(<<"CASE", ToJson(hist)>>)
=============================================================================
