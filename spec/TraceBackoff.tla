----------------------------- MODULE TraceBackoff -----------------------------
EXTENDS Backoff, Json, IOUtils
ObsLog == ndJsonDeserialize(IOEnv.OBS)
VARIABLES l, out
T == INSTANCE TraceFn WITH Viol <- BackoffViol, Prop <- "C37", Obs <- ObsLog
TSpec == T!TSpec
=============================================================================
