------------------------ MODULE ClientTransportDriver ------------------------
(* Bounded, nondeterministic driver of ClientTransport.tla shared by the      *)
(* model checking configuration and the case generator: any interleaving of   *)
(* request submissions, deadline checks, response chunks (for taken, unknown   *)
(* and already completed request ids), deadline expiries and transport close.  *)
EXTENDS ClientTransport

CONSTANTS
  NReq,         \* requests submitted at most
  CBs,          \* subset of BOOLEAN: kinds of request (TRUE expects a response)
  Classes,      \* subset of {"short", "long"}: timeout classes of requests
  Kinds,        \* subset of {"inter", "final", "abort"}
  CloseStats,   \* statuses the transport may be closed with
  MaxChunks,    \* chunks the peer sends at most
  MaxDepth,
  MinCloseDepth, \* Close is offered from this depth on (long random behaviours)
  Script,       \* steps executed first, e.g. <<<<"Submit", TRUE, "long">>, <<"Poll">>>>; then the free interleavings
  AllStale,     \* TRUE: chunks for every request id that is no longer pending; FALSE: only for the latest such id
  ForceClose    \* the last step of a behaviour closes the transport if it is still open

VARIABLES depth

DInit == Init /\ depth = 0

NotPending == (1..nextId) \ DOMAIN pending
Targets == DOMAIN pending \cup {UnknownId}
           \cup (IF AllStale \/ NotPending = {} THEN NotPending ELSE {CHOOSE id \in NotPending : \A x \in NotPending : x <= id})

Free ==
  \* (the timeout class of a request that expects no response is immaterial: it never becomes pending)
  \/ \E cb \in CBs, cls \in Classes : /\ Cardinality(DOMAIN subm) < NReq
                                       /\ (cb \/ cls = CHOOSE c \in Classes : TRUE)
                                       /\ Submit(Cardinality(DOMAIN subm) + 1, cb, cls)
  \/ Poll
  \/ \E id \in Targets, k \in Kinds : nextSeq <= MaxChunks /\ Chunk(id, k)
  \/ \E id \in DOMAIN pending : Expire(id)
  \/ \E s \in CloseStats : depth >= MinCloseDepth /\ Close(s)

SetupStep ==
  LET s == Script[depth + 1] IN
  CASE s[1] = "Submit" -> Submit(Cardinality(DOMAIN subm) + 1, s[2], s[3])
    [] s[1] = "Poll" -> Poll
    [] s[1] = "Chunk" -> Chunk(s[2], s[3])
    [] s[1] = "Expire" -> Expire(s[2])

DNext ==
  /\ depth < MaxDepth
  /\ depth' = depth + 1
  /\ IF depth < Len(Script) THEN SetupStep
     ELSE IF ForceClose /\ depth = MaxDepth - 1 /\ closed = "none" THEN Close("Good") ELSE Free

\* a behaviour is complete at the depth bound, or when nothing can happen any more (closed, every request submitted)
Done == depth = MaxDepth \/ (closed # "none" /\ Cardinality(DOMAIN subm) = NReq)
=============================================================================
