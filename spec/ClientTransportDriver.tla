------------------------ MODULE ClientTransportDriver ------------------------
(* Bounded, nondeterministic driver of ClientTransport.tla shared by the      *)
(* model checking configuration and the case generator: any interleaving of   *)
(* request submissions, deadline checks, response chunks (for taken, unknown   *)
(* and already completed request ids), deadline expiries and transport close.  *)
EXTENDS ClientTransport

CONSTANTS
  NReq,         \* requests submitted at most
  CBs,          \* subset of BOOLEAN: kinds of request (TRUE expects a response)
  Kinds,        \* subset of {"inter", "final", "abort"}
  CloseStats,   \* statuses the transport may be closed with
  MaxChunks,    \* chunks the peer sends at most
  MaxDepth,
  MinCloseDepth, \* Close is offered from this depth on (long random behaviours)
  ForceClose    \* the last step of a behaviour closes the transport if it is still open

VARIABLES depth

DInit == Init /\ depth = 0

Free ==
  \/ \E cb \in CBs : Cardinality(DOMAIN subm) < NReq /\ Submit(Cardinality(DOMAIN subm) + 1, cb)
  \/ Poll
  \/ \E id \in (1..nextId) \cup {UnknownId}, k \in Kinds : nextSeq <= MaxChunks /\ Chunk(id, k)
  \/ \E id \in DOMAIN pending : Expire(id)
  \/ \E s \in CloseStats : depth >= MinCloseDepth /\ Close(s)

DNext ==
  /\ depth < MaxDepth
  /\ depth' = depth + 1
  /\ IF ForceClose /\ depth = MaxDepth - 1 /\ closed = "none" THEN Close("Good") ELSE Free

\* a behaviour is complete at the depth bound, or when nothing can happen any more (closed, every request submitted)
Done == depth = MaxDepth \/ (closed # "none" /\ Cardinality(DOMAIN subm) = NReq)
=============================================================================
