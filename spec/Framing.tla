------------------------------ MODULE Framing ------------------------------
(***************************************************************************)
(* L1, implementation-shaped specification of the two framing layers of     *)
(* locka99/opcua (property C11):                                            *)
(*                                                                          *)
(*  receive side  core/comms/tcp_codec.rs   TcpCodec::decode, driven as     *)
(*                tokio_util's FramedRead drives it: the bytes of one read  *)
(*                are appended to the buffer, then decode is called until   *)
(*                it returns None (or an error);                            *)
(*  send side     client/transport/buffer.rs   SendBuffer {Writing,         *)
(*                Reading(end)}: write (message -> queued chunks),          *)
(*                encode_next_chunk (secure one chunk into the buffer),     *)
(*                read_into_async (offer the rest of the buffer to the      *)
(*                socket, which accepts k bytes, 0 bytes, or is Pending).   *)
(*                                                                          *)
(* Bytes are counted, not spelled: a frame is [id, kind, size, len] (`size' *)
(* = the size its header declares, `len' = the bytes of it that are in the  *)
(* stream; len < size only for a truncated oversize frame at the end of the *)
(* stream); secured bytes are spelled as runs <<chunk, first, last>>.         *)
(* Every action produces the observation record (`evt') that the harness    *)
(* (h_framing, engines `framing' and `sendbuf') produces for the same call  *)
(* on the real code; FramingProps.tla judges both.                          *)
(*                                                                          *)
(* Shape constants (the values of the pinned tree are Peek = HdrLen + 1,    *)
(* Slack = 0, LoseTail = FALSE; other values are the plausible breakages    *)
(* that the checks must catch, shown with TLC by MCFraming):                *)
(*   Peek     number of buffered bytes decode wants before it reads the     *)
(*            8 byte header (the code tests buf.len() > 8);  a value below  *)
(*            HdrLen reads beyond the buffer (panic);                       *)
(*   Slack    decode yields a frame when buffered >= size + Slack;          *)
(*   LoseTail the send buffer returns to Writing after a short write.       *)
(***************************************************************************)
EXTENDS Integers, Sequences, FiniteSets, SequencesExt, TLC

CONSTANTS
  Side,        \* "dec" (receive side) or "sb" (send side): which machine this configuration runs
  HdrLen,      \* bytes of a message header (8)
  Peek, Slack, LoseTail,
  Streams,     \* receive side: set of [frames |-> sequence of [id, kind, size, len], max |-> maximum message size (0 = none),
               \*   cuts |-> "all": every segmentation;  "near" / "edge": segments end only next to a header end or a frame end;
               \*            "ones": single bytes;  "sample": KSet,
               \*   run |-> a Read step may stand for up to `run' consecutive reads of the same size (1 = plain reads)]
  Scripts      \* send side: set of [msgs |-> sequence of messages (a message = the sizes of its secured chunks), cuts, run,
               \*   idle |-> number of Pending / zero-byte answers of the socket per behaviour]

VARIABLES
  str,     \* the stream being received (an element of Streams)
  pos,     \* bytes of the stream read so far
  nY,      \* frames yielded so far (the buffer holds the bytes Off(nY) .. pos of the stream)
  derr,    \* the decoder has returned an error (FramedRead ends the stream)
  eof,     \* end of stream has been signalled
  scr,     \* the script being sent (an element of Scripts)
  nm,      \* messages of the script submitted so far
  sb,      \* the send buffer: [reading, end, pos, queue, buf]
  emitted, \* bytes the socket has accepted, in order
  secured, \* concatenation of the secured chunks of the messages accepted by SendBuffer::write
  nIdle,   \* Pending / zero answers so far
  busy,    \* a write has been attempted while the buffer was in the Reading state
  evt      \* observation record of the last action

dvars == <<str, pos, nY, derr, eof>>
svars == <<scr, nm, sb, emitted, secured, nIdle, busy>>
vars == <<dvars, svars, evt>>

-----------------------------------------------------------------------------
(* Receive side                                                            *)

RECURSIVE Off(_, _)
Off(fr, n) == IF n = 0 THEN 0 ELSE Off(fr, n - 1) + fr[n].len
Total(fr) == Off(fr, Len(fr))

\* one call of TcpCodec::decode; the buffer holds `have' bytes, its head is frame n + 1
DecodeOnce(s, have, n) ==
  IF have < Peek THEN "none"                                   \* if buf.len() > MESSAGE_HEADER_LEN
  ELSE IF have < HdrLen THEN "panic"                           \* &buf[0..MESSAGE_HEADER_LEN]
  ELSE LET f == s.frames[n + 1] IN                             \* have >= HdrLen >= 1 implies n < Len(frames)
       IF s.max > 0 /\ f.size > s.max THEN "error"             \* BadTcpMessageTooLarge (commit e41905b3)
       ELSE IF have >= f.size + Slack THEN "frame"             \* buf.split_to(message_size)
       ELSE "none"

\* FramedRead: decode until None / Err
RECURSIVE Drain(_, _, _, _)
Drain(s, p, n, out) ==
  LET r == DecodeOnce(s, p - Off(s.frames, n), n) IN
  IF r = "frame" THEN Drain(s, p, n + 1, Append(out, s.frames[n + 1].id))
  ELSE [n |-> n, out |-> out, err |-> r # "none"]

\* `cnt' consecutive reads of k bytes each (the last one may be shorter); stops at an error.
\* at[j] = number of the read (1-based, within this step) in which out[j] was yielded.
RECURSIVE Reads(_, _, _, _, _, _, _, _)
Reads(s, p, n, k, cnt, j, out, at) ==
  IF j > cnt \/ p >= Total(s.frames) THEN [p |-> p, n |-> n, out |-> out, at |-> at, err |-> FALSE, done |-> j - 1]
  ELSE LET p2 == IF p + k > Total(s.frames) THEN Total(s.frames) ELSE p + k
           d  == Drain(s, p2, n, <<>>)
           o2 == out \o d.out
           a2 == at \o [x \in 1..Len(d.out) |-> j]
       IN IF d.err THEN [p |-> p2, n |-> d.n, out |-> o2, at |-> a2, err |-> TRUE, done |-> j]
          ELSE Reads(s, p2, d.n, k, cnt, j + 1, o2, a2)

\* The same function without walking through the reads in which nothing can happen: the head frame can only be
\* decoded (or rejected) once the stream position has reached Threshold, so the run jumps to the first read that
\* reaches it.  (TLC checks ReadsJ = Reads on the small streams, MCFraming!RunEquiv; the all-single-bytes schedule of
\* a 27000 byte stream is one step of 27000 reads.)
Min2(a, b) == IF a < b THEN a ELSE b
Max2(a, b) == IF a > b THEN a ELSE b
CeilDiv(a, b) == (a + b - 1) \div b
Threshold(s, n) ==
  LET f == s.frames[n + 1] IN
  Off(s.frames, n) + (IF Peek < HdrLen \/ (s.max > 0 /\ f.size > s.max) THEN Peek ELSE Max2(Peek, f.size + Slack))

RECURSIVE ReadsJ(_, _, _, _, _, _, _, _)
ReadsJ(s, p, n, k, cnt, done, out, at) ==
  LET tot  == Total(s.frames)
      left == IF p >= tot THEN 0 ELSE Min2(cnt - done, CeilDiv(tot - p, k)) IN
  IF left = 0 THEN [p |-> p, n |-> n, out |-> out, at |-> at, err |-> FALSE, done |-> done]
  ELSE LET need == IF n = Len(s.frames) THEN left ELSE Max2(1, CeilDiv(Threshold(s, n) - p, k))
           jmp  == Min2(need, left)
           p2   == Min2(p + jmp * k, tot)
           d    == Drain(s, p2, n, <<>>)
           o2   == out \o d.out
           a2   == at \o [x \in 1..Len(d.out) |-> done + jmp]
       IN IF d.err THEN [p |-> p2, n |-> d.n, out |-> o2, at |-> a2, err |-> TRUE, done |-> done + jmp]
          ELSE ReadsJ(s, p2, d.n, k, cnt, done + jmp, o2, a2)

StreamRec(s) == [ev |-> "Stream", frames |-> s.frames, max |-> s.max]

\* segment ends next to the places where an off-by-one would show: header end -1/0/+1, frame end -1/0, frame start +1
NearPoints(fr) ==
  UNION {LET b == Off(fr, i - 1) IN {b + 1, b + HdrLen - 1, b + HdrLen, b + HdrLen + 1, b + fr[i].len - 1, b + fr[i].len}
         : i \in 1..Len(fr)}

\* the same without the cut one byte into a frame
EdgePoints(fr) ==
  UNION {LET b == Off(fr, i - 1) IN {b + HdrLen - 1, b + HdrLen, b + HdrLen + 1, b + fr[i].len - 1, b + fr[i].len}
         : i \in 1..Len(fr)}

KBase == {1, 2, 3, 4, 5, 7, 8, 9, 10, 11, 12, 13, 16, 27, 28, 29, 31, 32, 33, 64, 100, 255, 256, 500, 1000, 1024, 4096,
          8195, 8196, 8197}
\* sample of segment sizes: small ones, ones that end next to the next header end / frame end, the rest of the stream
KSet(fr, p) ==
  LET rem == Total(fr) - p
      tgt == {x - p : x \in {y \in NearPoints(fr) : y > p}}
      near == IF tgt = {} THEN {}                                           \* the next few targets only
              ELSE LET m == CHOOSE x \in tgt : \A y \in tgt : x <= y IN {x \in tgt : x <= m + HdrLen + 2}
  IN {k \in KBase \cup near \cup {rem} : k >= 1 /\ k <= rem}

SegSizes(fr, p) ==
  LET rem == Total(fr) - p
      Cuts == str.cuts IN
  CASE Cuts = "all"  -> 1..rem
    [] Cuts = "near" -> {k \in 1..rem : p + k \in NearPoints(fr) \cup {Total(fr)}}
    [] Cuts = "edge" -> {k \in 1..rem : p + k \in EdgePoints(fr) \cup {Total(fr)}}
    [] Cuts = "ones" -> {1}                                   \* the all-single-bytes schedule
    [] OTHER         -> KSet(fr, p)

RunLens(fr, p, k) ==
  LET rem == Total(fr) - p
      full == (rem + k - 1) \div k
      most == IF full > str.run THEN str.run ELSE full IN
  IF str.cuts = "ones" THEN {most}
  ELSE IF str.run = 1 THEN {1}
  ELSE {c \in {1, 2, 3, 8, 9, 16, most} : c >= 1 /\ c <= most}

Read(k, cnt) ==
  /\ ~derr /\ ~eof /\ pos < Total(str.frames)
  /\ LET r == ReadsJ(str, pos, nY, k, cnt, 0, <<>>, <<>>) IN
     /\ pos' = r.p
     /\ nY' = r.n
     /\ derr' = r.err
     /\ evt' = [ev |-> "Read", k |-> k, n |-> r.done, out |-> r.out, at |-> r.at, err |-> r.err,
                buf |-> r.p - Off(str.frames, r.n)]
  /\ UNCHANGED <<str, eof, svars>>

\* end of stream: FramedRead calls decode_eof (= decode; bytes left over are an error); after an error it does not
Eof ==
  /\ ~eof /\ (derr \/ pos = Total(str.frames))
  /\ eof' = TRUE
  /\ LET d == IF derr THEN [n |-> nY, out |-> <<>>, err |-> FALSE] ELSE Drain(str, pos, nY, <<>>)
         left == pos - Off(str.frames, d.n) IN
     /\ nY' = d.n
     /\ evt' = [ev |-> "Eof", out |-> d.out, err |-> d.err \/ (~derr /\ left > 0), buf |-> left]
  /\ UNCHANGED <<str, pos, derr, svars>>

DecInit ==
  /\ str \in Streams /\ pos = 0 /\ nY = 0 /\ derr = FALSE /\ eof = FALSE
  /\ evt = StreamRec(str)

DecNext ==
  \/ \E k \in SegSizes(str.frames, pos) : \E c \in RunLens(str.frames, pos, k) : Read(k, c)
  \/ Eof

DecDone == eof

\* simulation: ONE random successor per state (TLC's simulator would otherwise compute every successor first)
DecNextSim ==
  IF ~derr /\ ~eof /\ pos < Total(str.frames)
  THEN \E k \in {RandomElement(SegSizes(str.frames, pos))} : \E c \in {RandomElement(RunLens(str.frames, pos, k))} : Read(k, c)
  ELSE Eof

-----------------------------------------------------------------------------
(* Send side                                                               *)

\* A byte string of secured chunks is spelled as its maximal runs <<chunk, first offset, last offset>> (a canonical
\* form: two byte strings are equal iff their run sequences are equal).
ChunkBytes(c, size) == IF size = 0 THEN <<>> ELSE <<<<c, 1, size>>>>
RLen(rs) == LET F[i \in 0..Len(rs)] == IF i = 0 THEN 0 ELSE F[i - 1] + rs[i][3] - rs[i][2] + 1 IN F[Len(rs)]
RCat(x, y) ==
  IF x = <<>> THEN y ELSE IF y = <<>> THEN x
  ELSE LET a == x[Len(x)]
           b == y[1] IN
       IF a[1] = b[1] /\ a[3] + 1 = b[2] THEN SubSeq(x, 1, Len(x) - 1) \o <<<<a[1], a[2], b[3]>>>> \o Tail(y)
       ELSE x \o y
\* the first n bytes
RECURSIVE RTake(_, _)
RTake(rs, n) ==
  IF n <= 0 \/ rs = <<>> THEN <<>>
  ELSE LET r == Head(rs)
           l == r[3] - r[2] + 1 IN
       IF l >= n THEN <<<<r[1], r[2], r[2] + n - 1>>>> ELSE <<r>> \o RTake(Tail(rs), n - l)
\* bytes p0+1 .. p1 of the chunk in the buffer
BufSlice(c, p0, p1) == IF p1 > p0 THEN <<<<c, p0 + 1, p1>>>> ELSE <<>>

\* chunks are numbered in the order in which SendBuffer::write queues them
RECURSIVE ChunksBefore(_, _)
ChunksBefore(s, m) == IF m = 0 THEN 0 ELSE ChunksBefore(s, m - 1) + Len(s[m])
MsgChunks(s, m) == [j \in 1..Len(s[m]) |-> [c |-> ChunksBefore(s, m - 1) + j, size |-> s[m][j]]]

RECURSIVE Flatten(_)
Flatten(cs) == IF cs = <<>> THEN <<>> ELSE RCat(ChunkBytes(Head(cs).c, Head(cs).size), Flatten(Tail(cs)))

CanRead(b) == b.reading \/ b.pos # 0
ShouldEncode(b) == b.queue # <<>> /\ ~CanRead(b)
Proj(b) == [reading |-> b.reading, end |-> IF b.reading THEN b.end ELSE 0, pos |-> b.pos, nq |-> Len(b.queue)]

SbEmpty == [reading |-> FALSE, end |-> 0, pos |-> 0, queue |-> <<>>, buf |-> 0]

\* SendBuffer::write
Submit ==
  /\ nm < Len(scr.msgs)
  /\ nm' = nm + 1
  /\ IF sb.reading
     THEN /\ ~busy /\ busy' = TRUE                              \* BadInvalidState, nothing changes
          /\ evt' = [ev |-> "Submit", ok |-> FALSE, chunks |-> <<>>, st |-> Proj(sb)]
          /\ UNCHANGED <<sb, secured>>
     ELSE LET cs == MsgChunks(scr.msgs, nm + 1)
              b2 == [sb EXCEPT !.queue = @ \o cs] IN
          /\ sb' = b2
          /\ secured' = RCat(secured, Flatten(cs))
          /\ evt' = [ev |-> "Submit", ok |-> TRUE, chunks |-> [j \in 1..Len(cs) |-> cs[j].size], st |-> Proj(b2)]
          /\ UNCHANGED busy
  /\ UNCHANGED <<scr, emitted, nIdle, dvars>>

\* SendBuffer::encode_next_chunk, called as the transport loop calls it (should_encode_chunks)
Encode ==
  /\ ShouldEncode(sb)
  /\ LET c == Head(sb.queue)
         b2 == [reading |-> TRUE, end |-> c.size, pos |-> sb.pos, queue |-> Tail(sb.queue), buf |-> c.c] IN
     /\ sb' = b2
     /\ evt' = [ev |-> "Encode", ok |-> TRUE, st |-> Proj(b2)]
  /\ UNCHANGED <<scr, nm, emitted, secured, nIdle, busy, dvars>>

\* one call of read_into_async; the socket answers r: "acc" (k > 0 bytes accepted), "zero", "pend".
\* `cnt' consecutive calls that each accept k bytes (fewer if fewer are offered) are one step.
RECURSIVE Socks(_, _, _, _, _, _)
Socks(b, k, cnt, j, em, first) ==
  IF j > cnt \/ ~CanRead(b) THEN [b |-> b, em |-> em, done |-> j - 1, offered |-> first]
  ELSE LET end == IF b.reading THEN b.end ELSE b.pos
           p0  == IF b.reading THEN b.pos ELSE 0
           off == end - p0
           a   == IF k > off THEN off ELSE k
           p1  == p0 + a
           fin == end = p1 \/ (LoseTail /\ a > 0)
           b2  == [b EXCEPT !.reading = ~fin, !.end = end, !.pos = IF fin THEN 0 ELSE p1]
       IN Socks(b2, k, cnt, j + 1, RCat(em, BufSlice(b.buf, p0, p1)), IF j = 1 THEN off ELSE first)

\* the same function in closed form for k > 0 (TLC checks SocksJ = Socks on the small scripts, MCFraming!RunEquiv)
SocksJ(b, k, cnt) ==
  IF ~CanRead(b) THEN [b |-> b, em |-> <<>>, done |-> 0, offered |-> 0]
  ELSE LET end == IF b.reading THEN b.end ELSE b.pos
           p0  == IF b.reading THEN b.pos ELSE 0
           off == end - p0
           calls == IF off = 0 \/ LoseTail THEN 1 ELSE Min2(cnt, CeilDiv(off, k))
           a   == Min2(calls * k, off)
           p1  == p0 + a
           fin == end = p1 \/ (LoseTail /\ a > 0)
       IN [b |-> [b EXCEPT !.reading = ~fin, !.end = end, !.pos = IF fin THEN 0 ELSE p1],
           em |-> BufSlice(b.buf, p0, p1), done |-> calls, offered |-> off]

PrefixOf(s, n) == RTake(s, n)

Sock(r, k, cnt) ==
  /\ CanRead(sb)
  /\ r \in {"pend", "zero"} => nIdle < scr.idle
  /\ LET x == IF r = "acc" THEN SocksJ(sb, k, cnt) ELSE Socks(sb, 0, 1, 1, <<>>, 0)
         em2 == RCat(emitted, x.em) IN
     /\ sb' = x.b
     /\ emitted' = em2
     /\ nIdle' = IF r = "acc" THEN nIdle ELSE nIdle + 1
     /\ evt' = [ev |-> "Sock", r |-> r, k |-> k, n |-> x.done, offered |-> x.offered, got |-> RLen(x.em),
                tot |-> RLen(em2), dg |-> em2, ref |-> PrefixOf(secured, RLen(em2)), st |-> Proj(x.b)]
  /\ UNCHANGED <<scr, nm, secured, busy, dvars>>

\* the end of a behaviour: the harness lets the socket accept everything until the buffer is idle
SbIdle(b) == ~CanRead(b) /\ b.queue = <<>>

RECURSIVE Flush(_, _, _)
Flush(b, em, fuel) ==
  IF fuel = 0 \/ SbIdle(b) THEN [b |-> b, em |-> em]
  ELSE IF ShouldEncode(b)
  THEN LET c == Head(b.queue) IN
       Flush([reading |-> TRUE, end |-> c.size, pos |-> b.pos, queue |-> Tail(b.queue), buf |-> c.c], em, fuel - 1)
  ELSE LET x == Socks(b, 1000000, 1, 1, <<>>, 0) IN Flush(x.b, RCat(em, x.em), fuel - 1)

End ==
  /\ nm = Len(scr.msgs)
  /\ LET x == Flush(sb, emitted, 64) IN
     /\ sb' = x.b
     /\ emitted' = x.em
     /\ evt' = [ev |-> "End", idle |-> SbIdle(x.b), tot |-> RLen(x.em), dg |-> x.em, ref |-> PrefixOf(secured, RLen(x.em)),
                want |-> RLen(secured), st |-> Proj(x.b)]
  /\ UNCHANGED <<scr, nm, secured, nIdle, busy, dvars>>

\* write sizes: "near" = the write ends 1 or 2 bytes into the chunk, in its middle, 1 byte before its end or at its end
SockSizes(b) ==
  LET off == IF b.reading THEN b.end - b.pos ELSE 0
      Cuts == scr.cuts IN
  CASE Cuts = "all"  -> 1..off
    [] Cuts = "near" -> {k \in 1..off : b.pos + k \in {1, 2, b.end \div 2, b.end - 1, b.end}}
    [] Cuts = "ones" -> {k \in {1} : off >= 1}
    [] OTHER         -> {k \in KBase \cup {off - 1, off, off \div 2} : k >= 1 /\ k <= off}

SockRuns(b, k) ==
  LET off == IF b.reading THEN b.end - b.pos ELSE 0
      full == (off + k - 1) \div k
      most == IF full > scr.run THEN scr.run ELSE full IN
  IF scr.cuts = "ones" THEN {most}
  ELSE IF scr.run = 1 THEN {1}
  ELSE {c \in {1, 2, 3, 8, most} : c >= 1 /\ c <= most}

SbInit ==
  /\ scr \in Scripts /\ nm = 0 /\ sb = SbEmpty /\ emitted = <<>> /\ secured = <<>> /\ nIdle = 0 /\ busy = FALSE
  /\ evt = [ev |-> "Script", msgs |-> scr.msgs]

SbNext ==
  /\ evt.ev # "End"
  /\ \/ Submit
     \/ Encode
     \/ \E k \in SockSizes(sb) : \E c \in SockRuns(sb, k) : Sock("acc", k, c)
     \/ Sock("pend", 0, 1)
     \/ Sock("zero", 0, 1)
     \/ End

SbDone == evt.ev = "End"

SbChoices ==
  (IF nm < Len(scr.msgs) /\ (~sb.reading \/ ~busy) THEN {"Submit"} ELSE {})
  \cup (IF ShouldEncode(sb) THEN {"Encode"} ELSE {})
  \cup (IF CanRead(sb) THEN {"acc1", "acc2", "acc3", "acc4"} \cup (IF nIdle < scr.idle THEN {"pend", "zero"} ELSE {}) ELSE {})
  \cup (IF nm = Len(scr.msgs) /\ ~CanRead(sb) THEN {"End"} ELSE {})
SbNextSim ==
  /\ evt.ev # "End"
  /\ \E a \in {RandomElement(SbChoices)} :
       CASE a = "Submit" -> Submit
         [] a = "Encode" -> Encode
         [] a = "pend"   -> Sock("pend", 0, 1)
         [] a = "zero"   -> Sock("zero", 0, 1)
         [] a = "End"    -> End
         [] OTHER        -> \E k \in {RandomElement(SockSizes(sb))} : \E c \in {RandomElement(SockRuns(sb, k))} : Sock("acc", k, c)

-----------------------------------------------------------------------------
NoStream == [frames |-> <<>>, max |-> 0, cuts |-> "all", run |-> 1]
NoScript == [msgs |-> <<>>, cuts |-> "all", run |-> 1, idle |-> 0]

Init ==
  IF Side = "dec"
  THEN DecInit /\ scr = NoScript /\ nm = 0 /\ sb = SbEmpty /\ emitted = <<>> /\ secured = <<>> /\ nIdle = 0 /\ busy = FALSE
  ELSE SbInit /\ str = NoStream /\ pos = 0 /\ nY = 0 /\ derr = FALSE /\ eof = FALSE

Next == IF Side = "dec" THEN DecNext ELSE SbNext
NextSim == IF Side = "dec" THEN DecNextSim ELSE SbNextSim
Done == IF Side = "dec" THEN DecDone ELSE SbDone
=============================================================================
