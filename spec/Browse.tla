------------------------------- MODULE Browse -------------------------------
(***************************************************************************)
(* L1 specification of Browse / BrowseNext as carried out by                *)
(* server/services/view.rs with the continuation points of                   *)
(* server/session.rs + server/continuation_point.rs, on a generated folder: *)
(* node 0 = folder F (organized by the Objects folder = 100, type definition *)
(* FolderType = 101), children 1..K referenced from F (reference types OR =  *)
(* Organizes, HC = HasComponent, HP = HasProperty; TD = HasTypeDefinition),  *)
(* 9 = a node that never exists.                                             *)
(* One action per service call; every action produces the observation       *)
(* record `evt'.  A reference description is [n, t, f] (target, reference    *)
(* type, isForward).  Continuation points are numbered in order of issue.    *)
(***************************************************************************)
EXTENDS Integers, Sequences, FiniteSets, SequencesExt, TLC

CONSTANTS K,               \* child ids are 1..K (K < 9)
          MaxCps,          \* continuation points kept per session (MAX_BROWSE_CONTINUATION_POINTS = 20)
          DevDeleteNoBump  \* AddressSpace::delete / delete_reference do not update last_modified

VARIABLES nodes,    \* existing nodes of the universe (0 and children)
          cls,      \* node class of child i
          fwd,      \* the references of F in the order the code keeps them: sequence of [t, n]
          lastMod,  \* modification stamp of the address space (the code: wall clock time of the last change)
          cps,      \* continuation points of the session as the code keeps them, oldest first:
                    \*   [id, rest (references not yet returned), page (max references per node), stamp]
          nextCp,   \* number of the next continuation point
          nextKid,  \* id of the next node that AddNodes creates
          evt
vars == <<nodes, cls, fwd, lastMod, cps, nextCp, nextKid, evt>>

PARENT == 100
FTYPE == 101
MISSING == 9

Class(n) == IF n = 0 \/ n = PARENT THEN "Object" ELSE IF n = FTYPE THEN "ObjectType" ELSE cls[n]
Match(f, t) == CASE f = "none" -> TRUE
                 [] f = "OR" -> t = "OR"
                 [] f = "HC" -> t = "HC"
                 [] f = "HIER" -> t \in {"OR", "HC", "HP"}
ClassOK(mask, c) == mask = "All" \/ mask = c

FwdOf(node) == IF node = 0 THEN [i \in 1..Len(fwd) |-> [n |-> fwd[i].n, t |-> fwd[i].t, f |-> TRUE]] ELSE <<>>
InvOf(node) == IF node = 0 THEN <<[n |-> PARENT, t |-> "OR", f |-> FALSE]>>
               ELSE LET s == SelectSeq(fwd, LAMBDA r : r.n = node) IN [i \in 1..Len(s) |-> [n |-> 0, t |-> s[i].t, f |-> FALSE]]
\* the unlimited result of Browse(node, dir, filter, class mask): forward references first, then inverse ones
Result(node, dir, f, mask) ==
  LET all == (IF dir \in {"Forward", "Both"} THEN FwdOf(node) ELSE <<>>) \o (IF dir \in {"Inverse", "Both"} THEN InvOf(node) ELSE <<>>)
  IN SelectSeq(all, LAMBDA r : Match(f, r.t) /\ ClassOK(mask, Class(r.n)))

\* the session makes room before it stores a new continuation point: the oldest ones go
Evict(s) == IF Len(s) >= MaxCps THEN SubSeq(s, Len(s) - MaxCps + 2, Len(s)) ELSE s

Rec(ev) == [ev |-> ev, node |-> 0, dir |-> "", filt |-> "", mask |-> "", page |-> 0, cp |-> 0, rel |-> FALSE,
            kind |-> "", t |-> "", n |-> 0, fail |-> "none", status |-> "Good", refs |-> <<>>, ncp |-> 0,
            fstatus |-> "", full |-> <<>>, changed |-> FALSE, ngood |-> 0]

Browse(node, dir, f, mask, page) ==
  LET ex == node \in nodes
      full == IF ex THEN Result(node, dir, f, mask) ELSE <<>>
      more == page > 0 /\ Len(full) > page
      st == IF ex THEN "Good" ELSE "BadNodeIdUnknown"
  IN /\ cps' = IF more THEN Append(Evict(cps), [id |-> nextCp, rest |-> SubSeq(full, page + 1, Len(full)), page |-> page, stamp |-> lastMod])
                       ELSE cps
     /\ nextCp' = IF more THEN nextCp + 1 ELSE nextCp
     /\ UNCHANGED <<nodes, cls, fwd, lastMod, nextKid>>
     /\ evt' = [Rec("Browse") EXCEPT !.node = node, !.dir = dir, !.filt = f, !.mask = mask, !.page = page, !.status = st,
                                     !.refs = IF more THEN SubSeq(full, 1, page) ELSE full, !.ncp = IF more THEN nextCp ELSE 0,
                                     !.fstatus = st, !.full = full]

\* BrowseNext without release on continuation point number cp, store `s', next free number nx
Valid(s) == SelectSeq(s, LAMBDA c : c.stamp >= lastMod)
NextOn(s, cp, nx) ==
  LET live == Valid(s)
      hit == SelectSeq(live, LAMBDA c : c.id = cp)
      others == SelectSeq(live, LAMBDA c : c.id # cp)
  IN IF hit = <<>> THEN [found |-> FALSE, refs |-> <<>>, ncp |-> 0, store |-> live]
     ELSE LET c == hit[1]
              more == Len(c.rest) > c.page
          IN [found |-> TRUE, refs |-> IF more THEN SubSeq(c.rest, 1, c.page) ELSE c.rest, ncp |-> IF more THEN nx ELSE 0,
              store |-> IF more THEN Append(Evict(others), [id |-> nx, rest |-> SubSeq(c.rest, c.page + 1, Len(c.rest)), page |-> c.page, stamp |-> c.stamp])
                        ELSE others]

BrowseNext(cp, rel) ==
  LET r == NextOn(cps, cp, nextCp)
  IN /\ cps' = IF rel THEN SelectSeq(cps, LAMBDA c : c.id # cp) ELSE r.store
     /\ nextCp' = IF ~rel /\ r.ncp # 0 THEN nextCp + 1 ELSE nextCp
     /\ UNCHANGED <<nodes, cls, fwd, lastMod, nextKid>>
     /\ evt' = [Rec("Next") EXCEPT !.cp = cp, !.rel = rel,
                                   !.status = IF rel THEN "NoResult" ELSE IF r.found THEN "Good" ELSE "BadContinuationPointInvalid",
                                   !.refs = IF rel THEN <<>> ELSE r.refs, !.ncp = IF rel THEN 0 ELSE r.ncp]

Bump == lastMod' = lastMod + 1
ModRec(kind, t, n, st, ch) == [Rec("Modify") EXCEPT !.kind = kind, !.t = t, !.n = n, !.status = st, !.changed = ch]

\* AddNodes: a new Object with the explicit id nextKid below F (or below a parent that does not exist)
AddNode(par, t) ==
  /\ nextKid <= K
  /\ IF par = 0
     THEN /\ nodes' = nodes \cup {nextKid} /\ cls' = [cls EXCEPT ![nextKid] = "Object"]
          /\ fwd' = Append(fwd, [t |-> t, n |-> nextKid]) /\ nextKid' = nextKid + 1 /\ Bump
          /\ evt' = ModRec("AddNode", t, nextKid, "Good", TRUE)
     ELSE /\ UNCHANGED <<nodes, cls, fwd, nextKid, lastMod>>
          /\ evt' = ModRec("AddNodeNoParent", t, nextKid, "BadParentNodeIdInvalid", FALSE)
  /\ UNCHANGED <<cps, nextCp>>

\* AddReferences: F -> n
AddRef(t, n) ==
  LET st == IF n \notin nodes THEN "BadTargetNodeIdInvalid"
            ELSE IF \E i \in 1..Len(fwd) : fwd[i] = [t |-> t, n |-> n] THEN "BadDuplicateReferenceNotAllowed" ELSE "Good"
  IN /\ fwd' = IF st = "Good" THEN Append(fwd, [t |-> t, n |-> n]) ELSE fwd
     /\ lastMod' = IF st = "Good" THEN lastMod + 1 ELSE lastMod
     /\ UNCHANGED <<nodes, cls, nextKid, cps, nextCp>>
     /\ evt' = ModRec("AddRef", t, n, st, st = "Good")

\* DeleteNodes with target references
DelNode(n) ==
  LET ex == n \in nodes
  IN /\ nodes' = nodes \ {n}
     /\ fwd' = SelectSeq(fwd, LAMBDA r : r.n # n)
     /\ lastMod' = IF ex /\ ~DevDeleteNoBump THEN lastMod + 1 ELSE lastMod
     /\ UNCHANGED <<cls, nextKid, cps, nextCp>>
     /\ evt' = ModRec("DelNode", "", n, IF ex THEN "Good" ELSE "BadNodeIdUnknown", ex)

\* DeleteReferences F -> n (forward, not bidirectional); the service answers Good whether or not the reference existed
DelRef(t, n) ==
  LET ex == \E i \in 1..Len(fwd) : fwd[i] = [t |-> t, n |-> n]
  IN /\ fwd' = SelectSeq(fwd, LAMBDA r : r # [t |-> t, n |-> n])
     /\ lastMod' = IF ex /\ ~DevDeleteNoBump THEN lastMod + 1 ELSE lastMod
     /\ UNCHANGED <<nodes, cls, nextKid, cps, nextCp>>
     /\ evt' = ModRec("DelRef", t, n, "Good", ex)

\* end of a case: BrowseNext on every continuation point ever issued, in order of issue; how many are still served
RECURSIVE ProbeFrom(_, _, _, _)
ProbeFrom(s, i, last, nx) ==
  IF i > last THEN 0
  ELSE LET r == NextOn(s, i, nx) IN (IF r.found THEN 1 ELSE 0) + ProbeFrom(r.store, i + 1, last, IF r.ncp # 0 THEN nx + 1 ELSE nx)
Probe ==
  /\ evt' = [Rec("Probe") EXCEPT !.cp = nextCp - 1, !.ngood = ProbeFrom(cps, 1, nextCp - 1, nextCp)]
  /\ UNCHANGED <<nodes, cls, fwd, lastMod, cps, nextCp, nextKid>>
=============================================================================
