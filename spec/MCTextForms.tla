----------------------------- MODULE MCTextForms -----------------------------
(* C04 / C05 case enumeration: one TLC state per case.  The round trip values and the seeds of the string      *)
(* enumeration (the empty string, the mutants) are initial states; every string over the alphabet up to StrMax *)
(* is reached by appending one character, so the reachable states are exactly Cases04 / Cases05 of TextForms.  *)
EXTENDS TextForms
CONSTANTS Which,     \* "C04" | "C05"
          StrMax,    \* no-panic half: every string over the alphabet up to this length is a case
          NameMax,   \* C05: every target browse name over NameAlpha up to this length (with the focus reference types)
          PathMax,   \* C05: every path over PathElems up to this many elements
          Deep       \* BOOLEAN: the larger (thorough) value spaces
VARIABLE c
Alpha == IF Which = "C04" THEN Alpha04 ELSE Alpha05
Seeds == IF Which = "C04"
         THEN RoundTrip04(Deep) \cup {ParseCase(s) : s \in {<<>>} \cup UNION {Mutants(t, Alpha04) : t \in MutBase04}}
         ELSE RoundTrip05(Deep, NameMax, PathMax) \cup {ParseCase(s) : s \in {<<>>} \cup UNION {Mutants(t, Alpha05) : t \in MutBase05}}
Init == c \in Seeds
Next == /\ c.t = "parse"
        /\ Len(c.str) < StrMax
        /\ \A i \in 1..Len(c.str) : c.str[i] \in Alpha
        /\ \E a \in Alpha : c' = ParseCase(Append(c.str, a))
Spec == Init /\ [][Next]_c
\* the specified text of an identifier is never empty
DesignOK == c.t \in {"nodeid", "expanded", "guid", "datetime"} => Len(Expected(c).text) > 0
=============================================================================
