----------------------------- MODULE MCTextForms -----------------------------
(* C04 / C05 case enumeration: one TLC state per case.  The round trip values and the seeds of the string      *)
(* enumeration (the empty string, the mutants) are initial states; every string over the alphabet up to StrMax *)
(* is reached by appending one character (likewise the target names of C05), so the reachable states are      *)
(* exactly Cases04 / Cases05 of TextForms (the injectivity obligation is checked on those declarative sets).   *)
EXTENDS TextForms
CONSTANTS Which,     \* "C04" | "C05"
          StrMax,    \* no-panic half: every string over the alphabet up to this length is a case
          NameMax,   \* C05: every target browse name over NameAlpha up to this length (with the focus reference types)
          PathMax,   \* C05: every path over PathElems up to this many elements
          Deep       \* BOOLEAN: the larger (thorough) value spaces
VARIABLE c
Alphas == IF Which = "C04" THEN {Alpha04} \cup (IF Deep THEN {Alpha04b} ELSE {}) ELSE {Alpha05}
\* C05: the one-element paths are seeded with the target names of length <= 1 (and the fixed SmallTargets); longer names
\* are reached by appending one character up to NameLimit, which yields exactly Elems1(Deep, NameMax) of TextForms
Len1Targets == {NoTarget} \cup {Tgt(ns, <<a>>) : ns \in Namespaces, a \in NameAlpha}
SeedElems == {Elem(rt, f, tg) : rt \in FocusRefs, f \in FocusFlags, tg \in Len1Targets}
             \cup {Elem(rt, f, tg) : rt \in UnnamedRefs, f \in Flags, tg \in SmallTargets}
             \cup {Elem(rt, f, tg) : rt \in RefTypes \ UnnamedRefs, f \in Flags, tg \in IF Deep THEN Len1Targets ELSE SmallTargets}
SeedPaths == {<<>>} \cup {<<e>> : e \in SeedElems} \cup LongPaths(PathMax)
NameLimit(e) == IF e.rt \in FocusRefs /\ [inv |-> e.inv, sub |-> e.sub] \in FocusFlags THEN NameMax
                ELSE IF Deep /\ HasName(e.rt) THEN 2 ELSE 0
Seeds == IF Which = "C04"
         THEN RoundTrip04(Deep) \cup {ParseCase(s) : s \in {<<>>} \cup UNION {Mutants(t, Alpha04) : t \in MutBase04}}
         ELSE {[t |-> "path", path |-> p] : p \in SeedPaths} \cup {ParseCase(s) : s \in {<<>>} \cup UNION {Mutants(t, Alpha05) : t \in MutBase05}}
Init == c \in Seeds
NextString == /\ c.t = "parse"
              /\ Len(c.str) < StrMax
              /\ \E A \in Alphas : /\ \A i \in 1..Len(c.str) : c.str[i] \in A
                                   /\ \E a \in A : c' = ParseCase(Append(c.str, a))
NextName == /\ c.t = "path"
            /\ Len(c.path) = 1
            /\ c.path[1].tgt.some
            /\ Len(c.path[1].tgt.name) < NameLimit(c.path[1])
            /\ \E a \in NameAlpha : c' = [t |-> "path", path |-> <<[c.path[1] EXCEPT !.tgt.name = Append(@, a)]>>]
Next == NextString \/ NextName
Spec == Init /\ [][Next]_c
\* the specified text of an identifier is never empty
DesignOK == c.t \in {"nodeid", "expanded", "guid", "datetime"} => Len(Expected(c).text) > 0
=============================================================================
