-------------------------- MODULE TraceChunkLayout --------------------------
EXTENDS ChunkLayout, Json, IOUtils
ObsLog == ndJsonDeserialize(IOEnv.OBS)
VARIABLES l, out
T == INSTANCE TraceFn WITH Viol <- LayoutViol, Prop <- "C07", Obs <- ObsLog
TSpec == T!TSpec
=============================================================================
