------------------------------ MODULE MCClientAcks ------------------------------
EXTENDS ClientAcksDriver

VARIABLES mon, viol, hard

MP == INSTANCE ClientAcksProps

MInit == DInit /\ mon = MP!M36Init /\ viol = {} /\ hard = FALSE
MNext == DNext /\ LET r == MP!Mon36Step(mon, evt') IN mon' = r.g /\ viol' = r.viol /\ hard' = r.hard
MSpec == MInit /\ [][MNext]_<<vars, dvars, mon, viol, hard>>

C36 == viol = {}
\* nothing but "a keep-alive was acknowledged like a notification message"
C36Hard == ~hard
MView == <<toAck, inflight, known, srvSeq, link, nReq, depth, nOk, nFail, phase, fin, mon, viol, hard>>
=============================================================================
