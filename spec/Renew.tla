-------------------------------- MODULE Renew --------------------------------
(***************************************************************************)
(* L1 specification of security token renewal on one secure channel, one    *)
(* process per real task (wires are FIFO per direction, as TCP is):          *)
(*   client caller task   AsyncSecureChannel::send: begin renew / end renew  *)
(*   client transport     verifies every incoming chunk with the keys the    *)
(*                        client channel holds NOW                           *)
(*   server reader task   process_chunk: verify with the keys held NOW;      *)
(*                        OpenSecureChannel(Renew) derives the new keys at   *)
(*                        once (secure_channel_service.rs)                   *)
(*   server writer task   takes responses from the queue and secures each    *)
(*                        AT WRITE TIME with the keys held at that moment    *)
(* Tokens are numbers: 1 = issued, 2.. = renewals.  A side's key slot(s):    *)
(*   cur  = token it secures with and verifies against                       *)
(*   prev = token it still verifies against (corrected design only)          *)
(* Keys are derived from the nonces of the OpenSecureChannel exchange: a key *)
(* is identified by its token AND by the client nonce it was derived from    *)
(* (nonce ids: the id of the renew request that carried it, 0 for the issue).*)
(*   gen  = the local nonce the client channel holds (the last one made)     *)
(*   n/pn = nonce of the keys of cur / prev                                  *)
(* Dev switches model the pinned tree.                                       *)
(***************************************************************************)
EXTENDS Integers, Sequences, FiniteSets, TLC

CONSTANTS
  MaxMsgs,          \* client requests that may be sent
  MaxRenews,        \* renewals
  DevSingleKeySlot, \* both sides forget the old keys as soon as they hold new ones; the server also SENDS with the new
                    \* token at once; the client switches only when the caller task runs end_renew
  AllowForged       \* the adversary may inject a chunk secured under keys of a token never issued

VARIABLES
  c,        \* client channel: [cur, prev, pendingRenew (token being negotiated or 0), gotOpn (OPN response processed by the transport task, end_renew not yet run)]
  s,        \* server channel: [cur, prev, next (new token not yet seen from the client, corrected design)]
  c2s, s2c, \* wires: sequences of [k |-> "MSG"|"OPNQ"|"OPNR"|"FORGED", id, tok]
  respq,    \* server responses queued for the writer task (not yet secured): [k, id, tok (for OPNR: the new token)]
  nSent, nRenew, issued, evt
vars == <<c, s, c2s, s2c, respq, nSent, nRenew, issued, evt>>

Init ==
  /\ c = [cur |-> 1, prev |-> 0, pend |-> 0, got |-> 0, gen |-> 0, n |-> 0, pn |-> 0]
  /\ s = [cur |-> 1, prev |-> 0, next |-> 0, n |-> 0, pn |-> 0, nn |-> 0]
  /\ c2s = <<>> /\ s2c = <<>> /\ respq = <<>>
  /\ nSent = 0 /\ nRenew = 0 /\ issued = {1}
  /\ evt = [ev |-> "Init"]

E(ev, side, m, acc) == [ev |-> ev, side |-> side, k |-> m.k, id |-> m.id, tok |-> m.tok, acc |-> acc, fail |-> "none"]

\* --- client caller task ---------------------------------------------------
ClientSend ==
  /\ nSent < MaxMsgs
  /\ LET m == [k |-> "MSG", id |-> nSent + 1, tok |-> c.cur, n |-> c.n] IN
     /\ c2s' = Append(c2s, m) /\ nSent' = nSent + 1
     /\ evt' = E("Secure", "client", m, TRUE)
  /\ UNCHANGED <<c, s, s2c, respq, nRenew, issued>>

ClientBeginRenew ==
  /\ nRenew < MaxRenews /\ c.pend = 0 /\ c.got = 0
  /\ LET m == [k |-> "OPNQ", id |-> 100 + nRenew + 1, tok |-> 0, n |-> 100 + nRenew + 1] IN
     /\ c2s' = Append(c2s, m) /\ c' = [c EXCEPT !.pend = nRenew + 2, !.gen = m.n] /\ nRenew' = nRenew + 1
     /\ evt' = E("BeginRenew", "client", m, TRUE)
  /\ UNCHANGED <<s, s2c, respq, nSent, issued>>

\* end_issue_or_renew_secure_channel, run by the caller task after the transport task completed the request
ClientEndRenew ==
  /\ c.got # 0
  \* the keys are derived from the local nonce the channel holds at this moment
  /\ c' = IF DevSingleKeySlot THEN [cur |-> c.got, prev |-> 0, pend |-> 0, got |-> 0, gen |-> c.gen, n |-> c.gen, pn |-> 0]
          ELSE [c EXCEPT !.pend = 0, !.got = 0]                    \* corrected: the transport task already switched
  /\ evt' = E("EndRenew", "client", [k |-> "OPNR", id |-> 0, tok |-> c.got], TRUE)
  /\ UNCHANGED <<s, c2s, s2c, respq, nSent, nRenew, issued>>

\* --- server reader task ----------------------------------------------------
ServerAccepts(m) ==
  /\ m.k = "MSG"
  /\ \/ (m.tok = s.cur /\ m.n = s.n)
     \/ (~DevSingleKeySlot /\ m.tok # 0 /\ m.tok = s.prev /\ m.n = s.pn)
     \/ (~DevSingleKeySlot /\ m.tok # 0 /\ m.tok = s.next /\ m.n = s.nn)
ServerRecv ==
  /\ c2s # <<>>
  /\ LET m == Head(c2s) IN
     /\ c2s' = Tail(c2s)
     /\ IF m.k = "OPNQ"
        THEN LET t == s.cur + (IF s.next # 0 THEN 2 ELSE 1) IN
             /\ s' = IF DevSingleKeySlot THEN [cur |-> t, prev |-> 0, next |-> 0, n |-> m.n, pn |-> 0, nn |-> 0]
                     \* corrected design: a second renewal while the token of the first has not been seen from the client yet
                     \* makes that token current (the client has it: it ends one renewal before it begins the next)
                     ELSE IF s.next # 0 THEN [cur |-> s.next, prev |-> s.cur, next |-> t, n |-> s.nn, pn |-> s.n, nn |-> m.n]
                     ELSE [s EXCEPT !.next = t, !.nn = m.n]
             /\ issued' = issued \cup {t}
             /\ respq' = Append(respq, [k |-> "OPNR", id |-> m.id, tok |-> t, n |-> m.n])
             /\ evt' = E("Deliver", "server", m, TRUE)
        ELSE LET acc == ServerAccepts(m) IN
             \* corrected design: the first message under the new token makes it current
             /\ s' = IF acc /\ ~DevSingleKeySlot /\ m.tok = s.next
                     THEN [cur |-> s.next, prev |-> s.cur, next |-> 0, n |-> s.nn, pn |-> s.n, nn |-> 0] ELSE s
             /\ respq' = IF acc THEN Append(respq, [k |-> "MSG", id |-> m.id, tok |-> 0, n |-> 0]) ELSE respq
             /\ UNCHANGED issued
             /\ evt' = E("Deliver", "server", m, acc)
  /\ UNCHANGED <<c, s2c, nSent, nRenew>>

\* --- server writer task: secures at write time -------------------------------
ServerWrite ==
  /\ respq # <<>>
  /\ LET r == Head(respq)
         m == IF r.k = "OPNR" THEN r ELSE [k |-> "MSG", id |-> r.id, tok |-> s.cur, n |-> s.n]
     IN /\ s2c' = Append(s2c, m) /\ respq' = Tail(respq)
        /\ evt' = E("Secure", "server", m, TRUE)
  /\ UNCHANGED <<c, s, c2s, nSent, nRenew, issued>>

\* --- client transport task ---------------------------------------------------
ClientAccepts(m) ==
  /\ m.k = "MSG"
  /\ \/ (m.tok = c.cur /\ m.n = c.n)
     \/ (~DevSingleKeySlot /\ m.tok = c.prev /\ m.n = c.pn /\ m.tok # 0)
ClientRecv ==
  /\ s2c # <<>>
  /\ LET m == Head(s2c) IN
     /\ s2c' = Tail(s2c)
     /\ IF m.k = "OPNR"
        THEN /\ c' = IF DevSingleKeySlot THEN [c EXCEPT !.got = m.tok]
                     ELSE [cur |-> m.tok, prev |-> c.cur, pend |-> c.pend, got |-> m.tok, gen |-> c.gen, n |-> c.gen, pn |-> c.n]
             /\ evt' = E("Deliver", "client", m, TRUE)
        ELSE /\ UNCHANGED c /\ evt' = E("Deliver", "client", m, ClientAccepts(m))
  /\ UNCHANGED <<s, c2s, respq, nSent, nRenew, issued>>

\* --- adversary: a chunk secured with keys of a token that was never issued ------
Forge(side) ==
  /\ AllowForged
  /\ LET m == [k |-> "FORGED", id |-> 0, tok |-> 99, n |-> 0] IN
     evt' = E("Deliver", side, m, FALSE)
  /\ UNCHANGED <<c, s, c2s, s2c, respq, nSent, nRenew, issued>>

Next == ClientSend \/ ClientBeginRenew \/ ClientEndRenew \/ ServerRecv \/ ServerWrite \/ ClientRecv
        \/ Forge("server") \/ Forge("client")
=============================================================================
