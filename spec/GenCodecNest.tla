---------------------------- MODULE GenCodecNest ----------------------------
EXTENDS MCCodecNest, Json
CONSTANT Deep       \* repetitions of a cycle for the stack-survival variant (200000)

Seg(n, b) == [n |-> n, b |-> b]
PathCase(x) ==
  LET p == st.path  r == st.root IN
  [c |-> [kind |-> "path", name |-> Name(r, p), root |-> TypeName(r), opts |-> OptsJson(x), segs |-> <<Seg(1, Bytes(r, p))>>,
          reent |-> Reent(r, p, 1), must |-> Reent(r, p, 1) > x.o.depth],
   exp |-> Decide(p, 1, x.o.depth)]
CycCase(x, n, msg) ==
  LET p == st.path  r == st.root IN
  [c |-> [kind |-> "cycle", name |-> Name(r, p) \o (IF msg THEN " in " \o MsgOf(r) ELSE ""),
          root |-> IF msg THEN MsgOf(r) ELSE TypeName(r), opts |-> OptsJson(x),
          segs |-> (IF msg THEN <<Seg(1, MsgPre(r))>> ELSE <<>>) \o <<Seg(n, Pre(p)), Seg(1, Term(r)), Seg(n, Suf(p))>>
                   \o (IF msg THEN <<Seg(1, MsgSuf(r))>> ELSE <<>>),
          reent |-> Reent(r, p, n), must |-> Reent(r, p, n) > x.o.depth, n |-> n],
   exp |-> Decide(p, n, x.o.depth)]
MaskCase(x) == [c |-> [kind |-> "mask", name |-> st.ty \o " mask", root |-> st.ty, opts |-> OptsJson(x), segs |-> <<Seg(1, MaskBytes(st.m))>>,
                       reent |-> 0, must |-> FALSE, m |-> st.m],
                exp |-> IF Run(st.ty, MaskBytes(st.m), x.o).ok THEN "ok" ELSE "err"]
FrameCase(root) == [c |-> [kind |-> "frame", name |-> st.ty \o " frame as " \o root, root |-> root, opts |-> OptsJson(CHOOSE y \in OptSet : y.nm = "default"),
                           segs |-> <<Seg(1, FrameBytes(st.ty))>>, reent |-> 0, must |-> FALSE],
                    exp |-> "ok"]
CasesOf ==
  IF st.kind = "frame" THEN {FrameCase("Codec"), FrameCase(st.ty)}
  ELSE IF st.kind = "mask" THEN {MaskCase(x) : x \in {y \in OptSet : y.nm # "depth3"}}
  ELSE {PathCase(x) : x \in {y \in OptSet : Len(st.path) <= y.o.depth + 2}}
       \cup (IF IsCycle(st.root, st.path)
             THEN UNION {{CycCase(x, n, FALSE) : n \in {d \in {x.o.depth - 1, x.o.depth, x.o.depth + 1} : d >= 1}} : x \in OptSet}
                  \cup UNION {{CycCase(x, n, TRUE) : n \in {x.o.depth, x.o.depth + 1}} : x \in {y \in OptSet : MsgOf(st.root) # ""}}
                  \cup {CycCase(x, Deep, msg) : x \in {y \in OptSet : y.nm # "depth3"}, msg \in {m \in BOOLEAN : m => MsgOf(st.root) # ""}}
             ELSE {})
Emit == \A x \in CasesOf : PrintT(<<"CASE", ToJson(x)>>)
=============================================================================
