---------------------------- MODULE SignatureData ----------------------------
(***************************************************************************)
(* C17  Signature data verifies exactly when made by the right key over the *)
(* right data.                                                              *)
(*                                                                          *)
(* Part 4, 5.6.2 / 7.32 (SignatureData): the signer signs  certificate o    *)
(* nonce  (the other side's certificate and nonce) with its private key and *)
(* the AsymmetricSignatureAlgorithm of the security policy.  Sign / Verify  *)
(* are uninterpreted: a signature is the term                               *)
(*    [signer, alg, cert, nonce, form]                                      *)
(* and  Verify(sig, key, alg, cert, nonce)  holds iff the term is intact    *)
(* and all components agree.  A case is a policy, a key size, a nonce       *)
(* length and ONE mutation class; byte-position classes stand for every     *)
(* byte position of the region (the harness applies the mutation at every   *)
(* position and reports the SET of outcomes).                               *)
(***************************************************************************)
EXTENDS Integers, Sequences, FiniteSets, TLC

CONSTANTS KeyBits, NonceLens

Policies == {"Basic128Rsa15", "Basic256", "Basic256Sha256", "Aes128Sha256RsaOaep", "Aes256Sha256RsaPss"}
\* Part 7: AsymmetricSignatureAlgorithm of the policy
Alg(p) == CASE p \in {"Basic128Rsa15", "Basic256"} -> "http://www.w3.org/2000/09/xmldsig#rsa-sha1"
            [] p \in {"Basic256Sha256", "Aes128Sha256RsaOaep"} -> "http://www.w3.org/2001/04/xmldsig-more#rsa-sha256"
            [] p = "Aes256Sha256RsaPss" -> "http://opcfoundation.org/UA/security/rsa-pss-sha2-256"

(* mutation classes.  Those named in the property ("changing the certificate, the nonce, any signature byte,  *)
(* or using another signer") must make verification fail:                                                    *)
MustFail == {"cert-byte",          \* one byte of the contained certificate changed (every position, parseable and different)
             "cert-other",         \* another certificate in place of the contained one
             "nonce-byte",         \* one byte of the nonce changed (every position)
             "nonce-trunc", "nonce-ext", "nonce-other",
             "sig-byte",           \* one byte of the signature changed (every position)
             "sig-trunc",          \* last / first byte dropped, empty, null
             "sig-ext",            \* a byte appended / prepended
             "other-signer",       \* signed with another private key of the same size, verified against the original certificate
             "other-signer-size",  \* signed with a key of another size
             "other-signing-cert"} \* verified against another signer certificate
(* not named in the property (no verdict, specified behaviour only):                                         *)
Silent == {"alg-uri",              \* the algorithm field of the SignatureData replaced (the verifier takes the algorithm from the policy)
           "verify-policy"}        \* verified under another security policy
Mutations == {"none"} \cup MustFail \cup Silent

NeedsNonceByte(m) == m \in {"nonce-byte", "nonce-trunc"}

Cases == {[pol |-> p, vpol |-> q, bits |-> b, nl |-> n, mut |-> m]
           : p \in Policies, q \in Policies, b \in KeyBits, n \in NonceLens, m \in Mutations}
CaseOK(c) == /\ (c.mut # "verify-policy" => c.vpol = c.pol) /\ (c.mut = "verify-policy" => c.vpol # c.pol)
             /\ (NeedsNonceByte(c.mut) => c.nl >= 1)
             /\ (c.mut = "other-signer-size" => Cardinality(KeyBits) >= 2)

-----------------------------------------------------------------------------
(* symbolic signatures *)
Sign(key, alg, cert, nonce) == [signer |-> key, alg |-> alg, cert |-> cert, nonce |-> nonce, form |-> "intact"]
Verify(sig, key, alg, cert, nonce) ==
  sig.form = "intact" /\ sig.signer = key /\ sig.alg = alg /\ sig.cert = cert /\ sig.nonce = nonce

\* the verification call of a case: what was signed and what it is verified against
Mutated(c) ==
  LET s0 == Sign(IF c.mut \in {"other-signer", "other-signer-size"} THEN "B" ELSE "A", Alg(c.pol), "C", "N")
  IN [sig   |-> IF c.mut \in {"sig-byte", "sig-trunc", "sig-ext"} THEN [s0 EXCEPT !.form = "damaged"] ELSE s0,
      key   |-> IF c.mut = "other-signing-cert" THEN "B" ELSE "A",
      alg   |-> Alg(c.vpol),
      cert  |-> IF c.mut \in {"cert-byte", "cert-other"} THEN "C'" ELSE "C",
      nonce |-> IF c.mut \in {"nonce-byte", "nonce-trunc", "nonce-ext", "nonce-other"} THEN "N'" ELSE "N"]

\* L1: the specified outcome set
SigSpec(c) == LET m == Mutated(c)
              IN [fail |-> "none", site |-> "", create |-> "ok", algok |-> TRUE,
                  \* signer "B" of the class other-signer-size has the other of the two small key sizes
                  siglen |-> (IF c.mut = "other-signer-size" THEN (IF c.bits = 1024 THEN 2048 ELSE 1024) ELSE c.bits) \div 8,
                  outcomes |-> IF Verify(m.sig, m.key, m.alg, m.cert, m.nonce) THEN <<"good">> ELSE <<"bad">>]

-----------------------------------------------------------------------------
(* L2: the judge. r.outcomes = set (as a sequence) of "good" / "bad" / "panic" over all applied mutants        *)
Outs(r) == {r.outcomes[i] : i \in 1..Len(r.outcomes)}
SigViol(e) ==
  LET c == e.c
      r == e.r
  IN IF r.create # "ok" THEN {"signature-not-created:" \o r.site}
     ELSE (IF c.mut = "none" /\ Outs(r) # {"good"} THEN {"genuine-signature-rejected"} ELSE {})
     \cup (IF c.mut \in MustFail /\ "good" \in Outs(r) THEN {"verified-despite:" \o c.mut} ELSE {})
=============================================================================
