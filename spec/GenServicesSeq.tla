----------------------------- MODULE GenServicesSeq -----------------------------
(* short sequences of requests of the universe (TLC simulation picks them) *)
EXTENDS Services, Json
CONSTANT MaxLen
VARIABLES hist
SInit == hist = <<>>
SNext == Len(hist) < MaxLen /\ hist' = Append(hist, RandomElement(Universe))     \* TLC's seeded random choice
SSpec == SInit /\ [][SNext]_hist
Emit == (Len(hist) = MaxLen) => PrintT(<<"CASE", ToJson([steps |-> hist])>>)
=============================================================================
