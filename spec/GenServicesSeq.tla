----------------------------- MODULE GenServicesSeq -----------------------------
(* short sequences of requests of the universe (TLC simulation picks them) *)
EXTENDS Services, Json
CONSTANT MaxLen
VARIABLES hist
SInit == hist = <<>>
\* TLC's simulator picks a successor at random: three of four steps are requests that are likely to be carried out,
\* the fourth is any request of the universe (RandomElement: enumerating 34 035 successors per step is too slow)
SNext == /\ Len(hist) < MaxLen
         /\ \E k \in 1..4 : \E r \in Live : hist' = Append(hist, IF k = 1 THEN RandomElement(Universe) ELSE r)
SSpec == SInit /\ [][SNext]_hist
Emit == (Len(hist) = MaxLen) => PrintT(<<"CASE", ToJson([steps |-> hist])>>)
=============================================================================
