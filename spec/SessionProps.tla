---------------------------- MODULE SessionProps ----------------------------
(***************************************************************************)
(* L2 monitors for C19 and C20 over observation records only                 *)
(* (DESIGN.md Appendix A).  A record:                                        *)
(*   ev    Create | Activate | Close | Service | Discovery | ChannelChange | *)
(*         Tick (d units of time pass; an event of the environment)          *)
(*   conn  the connection the request was sent on, chan its current secure   *)
(*         channel id, tok the authentication token (1.. = token returned by *)
(*         the k-th CreateSession, 8 forged, 0 null), tmo = the revised      *)
(*         session timeout CreateSession returned (0 = none, n = between n   *)
(*         and n+1 units),                                                   *)
(*   class ok | fault | none,  effect = the observable state (value of the   *)
(*         variable, number of subscriptions) changed.                       *)
(* The ghost is updated from observed responses of the session services and  *)
(* from the environment events only.  Timed out (the statement: a refused    *)
(* request changes nothing, so it cannot restart the idle time): more than   *)
(* the timeout has passed since the session's last service request that was  *)
(* carried out or its last session-service request; once a request finds the *)
(* session timed out it stays timed out.                                     *)
(***************************************************************************)
EXTENDS Integers, Sequences, FiniteSets, TLC

Toks == 1..4        \* tokens a CreateSession can have returned; the forged and the null token are never known
Unknown == [known |-> FALSE, act |-> FALSE, conn |-> 0, chan |-> 0, closed |-> FALSE, dead |-> FALSE, tmo |-> 0, idle |-> 0, gen |-> 0]
M19Init == [t \in Toks |-> Unknown]

\* the request e finds its session timed out
Expired(S, e) == e.tok \in Toks /\ S[e.tok].known /\ ~S[e.tok].closed /\ S[e.tok].tmo > 0 /\ S[e.tok].idle > S[e.tok].tmo
Dead(S, e) == e.tok \in Toks /\ (S[e.tok].dead \/ Expired(S, e))

\* ghost update shared by both monitors
Ghost(S, e) ==
  IF e.fail # "none" THEN S
  ELSE IF e.ev = "Tick"
  THEN [t \in Toks |-> IF S[t].known /\ S[t].tmo > 0
                        THEN [S[t] EXCEPT !.idle = IF @ + e.d > S[t].tmo THEN S[t].tmo + 1 ELSE @ + e.d] ELSE S[t]]
  ELSE IF e.tok \notin Toks THEN S
  ELSE IF e.ev = "Create" /\ e.class = "ok"
  THEN [S EXCEPT ![e.tok] = [known |-> TRUE, act |-> FALSE, conn |-> e.conn, chan |-> e.chan, closed |-> FALSE, dead |-> FALSE,
                             tmo |-> e.tmo, idle |-> 0, gen |-> 0]]
  ELSE IF ~S[e.tok].known THEN S
  ELSE IF e.ev = "Activate"
  THEN LET dd == Dead(S, e)
           \* a session service request counts as activity of a live session whatever its outcome (the statement is silent);
           \* a refused ActivateSession leaves the rest alone: the statement does not require de-activation
           S1 == [S EXCEPT ![e.tok].dead = dd, ![e.tok].idle = IF dd THEN @ ELSE 0]
       IN IF e.class = "ok" THEN [S1 EXCEPT ![e.tok].act = TRUE, ![e.tok].conn = e.conn, ![e.tok].chan = e.chan, ![e.tok].gen = @ + 1] ELSE S1
  ELSE IF e.ev = "Service"
  THEN LET dd == Dead(S, e)
       IN [S EXCEPT ![e.tok].dead = dd, ![e.tok].idle = IF ~dd /\ e.class = "ok" THEN 0 ELSE @]
  ELSE IF e.ev = "Close" /\ e.class = "ok" THEN [S EXCEPT ![e.tok].closed = TRUE]
  ELSE S

\* why a service request must be refused ("" = it may be carried out)
Refuse(S, e) ==
  IF e.tok \notin Toks \/ ~S[e.tok].known THEN "unknown-token"
  ELSE IF S[e.tok].closed THEN "closed-session"
  ELSE IF ~S[e.tok].act THEN "session-not-activated"
  ELSE IF S[e.tok].conn # e.conn THEN "session-of-another-connection"
  ELSE IF S[e.tok].chan # e.chan THEN "session-bound-to-another-secure-channel"
  ELSE IF Dead(S, e) THEN "session-timed-out"
  ELSE ""

Mon19Step(S, e) ==
  LET why == Refuse(S, e)
      v == IF e.fail # "none" THEN {}
           ELSE IF e.ev = "Service"
           THEN (IF why # "" /\ (e.class # "fault" \/ e.effect) THEN {"service-carried-out:" \o why} ELSE {})
                \cup (IF why = "" /\ e.class = "fault" /\ e.effect THEN {"service-fault-but-state-changed"} ELSE {})
           ELSE IF e.ev \in {"Activate", "Close"} /\ e.tok \in Toks /\ S[e.tok].known /\ S[e.tok].closed /\ e.class # "fault"
           THEN {"token-accepted-after-close-session:" \o e.ev}
           ELSE {}
  IN [g |-> Ghost(S, e), viol |-> v]

-----------------------------------------------------------------------------
(* C20 on histories: repeated activations that replay tokens made for an     *)
(* earlier session nonce.  e.kind: anon | user | userenc | x509,             *)
(* e.cred: good | bad, e.g: the generation of the session nonce the token    *)
(* was made for (0 = the nonce of CreateSession, +1 per successful           *)
(* ActivateSession).                                                         *)
M20Init == M19Init
Mon20Step(S, e) ==
  LET t == e.tok
      usable == t \in Toks /\ S[t].known /\ ~S[t].closed /\ ~Dead(S, e)
                /\ S[t].conn = e.conn /\ S[t].chan = e.chan      \* on the channel the session is bound to
      bound == e.kind \in {"userenc", "x509"}
      v == IF e.fail # "none" \/ e.ev # "Activate" \/ t \notin Toks \/ ~S[t].known THEN {}
           ELSE IF e.class = "ok" /\ e.cred = "bad" THEN {"activated-with-wrong-credentials:" \o e.kind}
           ELSE IF e.class = "ok" /\ bound /\ e.g < S[t].gen THEN {"activated-with-token-made-for-an-earlier-nonce:" \o e.kind}
           ELSE IF e.class # "ok" /\ usable /\ e.cred = "good" /\ (bound => e.g = S[t].gen)
           THEN {"configured-credentials-refused:" \o e.kind}
           ELSE {}
  IN [g |-> Ghost(S, e), viol |-> v]
=============================================================================
