---------------------------- MODULE SessionProps ----------------------------
(***************************************************************************)
(* L2 monitors for C19 and C20 over observation records only                 *)
(* (DESIGN.md Appendix A).  A record:                                        *)
(*   ev    Create | Activate | Close | Service | Discovery | ChannelChange | *)
(*         TimePasses                                                        *)
(*   conn  the connection the request was sent on, chan its current secure   *)
(*         channel id, tok the authentication token (1.. = token returned by *)
(*         the k-th CreateSession, 8 forged, 0 null), beyond = more than the *)
(*         session timeout has elapsed since the session's last request,     *)
(*   class ok | fault | none,  effect = the observable state (value of the   *)
(*         variable, number of subscriptions) changed.                       *)
(* The ghost is updated from observed responses of the session services and  *)
(* from the environment events only.                                         *)
(***************************************************************************)
EXTENDS Integers, Sequences, FiniteSets, TLC

Toks == 1..4        \* tokens a CreateSession can have returned; the forged and the null token are never known
Unknown == [known |-> FALSE, act |-> FALSE, conn |-> 0, chan |-> 0, closed |-> FALSE, to |-> FALSE, gen |-> 0]
M19Init == [t \in Toks |-> Unknown]

\* ghost update shared by both monitors
Ghost(S, e) ==
  IF e.fail # "none" \/ e.tok \notin Toks THEN S
  ELSE IF e.ev = "Create" /\ e.class = "ok"
  THEN [S EXCEPT ![e.tok] = [known |-> TRUE, act |-> FALSE, conn |-> e.conn, chan |-> e.chan, closed |-> FALSE, to |-> FALSE, gen |-> 0]]
  ELSE IF e.ev = "Activate" /\ e.class = "ok"
  THEN [S EXCEPT ![e.tok].act = TRUE, ![e.tok].conn = e.conn, ![e.tok].chan = e.chan, ![e.tok].gen = @ + 1]
  \* a refused ActivateSession leaves the ghost alone: the statement does not require de-activation
  ELSE IF e.ev = "Close" /\ e.class = "ok" THEN [S EXCEPT ![e.tok].closed = TRUE]
  ELSE IF e.ev = "TimePasses" /\ e.beyond THEN [S EXCEPT ![e.tok].to = TRUE]
  ELSE S

\* why a service request must be refused ("" = it may be carried out)
Refuse(S, e) ==
  IF e.tok \notin Toks \/ ~S[e.tok].known THEN "unknown-token"
  ELSE IF S[e.tok].closed THEN "closed-session"
  ELSE IF ~S[e.tok].act THEN "session-not-activated"
  ELSE IF S[e.tok].conn # e.conn THEN "session-of-another-connection"
  ELSE IF S[e.tok].chan # e.chan THEN "session-bound-to-another-secure-channel"
  ELSE IF S[e.tok].to \/ e.beyond THEN "session-timed-out"
  ELSE ""

Mon19Step(S, e) ==
  LET why == Refuse(S, e)
      v == IF e.fail # "none" THEN {}
           ELSE IF e.ev = "Service"
           THEN (IF why # "" /\ (e.class # "fault" \/ e.effect) THEN {"service-carried-out:" \o why} ELSE {})
                \cup (IF why = "" /\ e.class = "fault" /\ e.effect THEN {"service-fault-but-state-changed"} ELSE {})
           ELSE IF e.ev \in {"Activate", "Close"} /\ e.tok \in Toks /\ S[e.tok].known /\ S[e.tok].closed /\ e.class # "fault"
           THEN {"token-accepted-after-close-session:" \o e.ev}
           ELSE {}
  IN [g |-> Ghost(S, e), viol |-> v]

-----------------------------------------------------------------------------
(* C20 on histories: repeated activations that replay tokens made for an     *)
(* earlier session nonce.  e.kind: anon | user | userenc | x509,             *)
(* e.cred: good | bad, e.g: the generation of the session nonce the token    *)
(* was made for (0 = the nonce of CreateSession, +1 per successful           *)
(* ActivateSession).                                                         *)
M20Init == M19Init
Mon20Step(S, e) ==
  LET t == e.tok
      usable == t \in Toks /\ S[t].known /\ ~S[t].closed /\ ~S[t].to /\ ~e.beyond
                /\ S[t].conn = e.conn /\ S[t].chan = e.chan      \* on the channel the session is bound to
      bound == e.kind \in {"userenc", "x509"}
      v == IF e.fail # "none" \/ e.ev # "Activate" \/ t \notin Toks \/ ~S[t].known THEN {}
           ELSE IF e.class = "ok" /\ e.cred = "bad" THEN {"activated-with-wrong-credentials:" \o e.kind}
           ELSE IF e.class = "ok" /\ bound /\ e.g < S[t].gen THEN {"activated-with-token-made-for-an-earlier-nonce:" \o e.kind}
           ELSE IF e.class # "ok" /\ usable /\ e.cred = "good" /\ (bound => e.g = S[t].gen)
           THEN {"configured-credentials-refused:" \o e.kind}
           ELSE {}
  IN [g |-> Ghost(S, e), viol |-> v]
=============================================================================
