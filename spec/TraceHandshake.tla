--------------------------- MODULE TraceHandshake ---------------------------
EXTENDS Integers, Sequences, FiniteSets, SequencesExt, TLC, Json, IOUtils
CONSTANTS MaxChunks, MaxMsg, Mons
MP == INSTANCE HandshakeProps
Obs == ndJsonDeserialize(IOEnv.OBS)
VARIABLES l, mon, out, dead
TInit == l = 1 /\ mon = MP!MInit /\ out = <<>> /\ dead = {}
Verdicts(e, prop, vs, dd) ==
  IF prop \in dd \/ prop \notin Mons THEN <<>>
  ELSE LET s == SetToSeq(vs) IN [j \in 1..Len(s) |-> [case |-> e.case, i |-> e.i, prop |-> prop, clause |-> s[j]]]
TNext ==
  \/ /\ l <= Len(Obs)
     /\ LET e == Obs[l]
            g == IF e.i = 1 THEN MP!MInit ELSE mon
            dd == IF e.i = 1 THEN {} ELSE dead
            r15 == MP!Mon15Step(g, e)
            r10 == MP!Mon10Step(g, e)
        IN /\ mon' = r15.g
           /\ out' = out \o Verdicts(e, "C15", r15.viol, dd) \o Verdicts(e, "C10", r10.viol, dd)
           /\ dead' = dd \cup (IF r15.viol # {} THEN {"C15"} ELSE {}) \cup (IF r10.viol # {} THEN {"C10"} ELSE {})
     /\ l' = l + 1
  \/ /\ l = Len(Obs) + 1 /\ ndJsonSerialize(IOEnv.VERDICT, out) /\ l' = l + 1 /\ UNCHANGED <<mon, out, dead>>
TSpec == TInit /\ [][TNext]_<<l, mon, out, dead>>
=============================================================================
