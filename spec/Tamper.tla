------------------------------- MODULE Tamper -------------------------------
(***************************************************************************)
(* C08  Modified or foreign secured chunks are never accepted.              *)
(*                                                                          *)
(* A secured chunk is                                                       *)
(*    [ header, secHeader, Enc_k( seqHeader o body o pad o Mac_k'(...) ) ]   *)
(* with UNINTERPRETED Mac and Enc:                                          *)
(*   - Mac_k(d) = Mac_k'(d') iff k = k' and d = d' (no forgery); the Mac    *)
(*     (the RSA signature of an OPN chunk) covers every byte in front of    *)
(*     it: message header (type, final flag, size, channel id), security    *)
(*     header (token id / policy uri, sender certificate, receiver          *)
(*     thumbprint), sequence header, body, padding;                         *)
(*   - Dec_k(Enc_k'(p)) = p iff k = k' and the cipher text is unchanged,    *)
(*     otherwise it is garbage unrelated to p (or no plain text at all when *)
(*     the length is not a whole number of cipher blocks).                  *)
(* A symbolic chunk records how it differs from the valid chunk v the       *)
(* sender produced:  mod = the regions with changed bytes, cut = whether     *)
(* bytes were removed / appended at the end, sizeOK = the size field equals  *)
(* the actual length, seal = whose symmetric keys sealed it, signer / encTo  *)
(* / thumb = asymmetric key material used.  The adversary actions           *)
(* Flip(region), Truncate, Extend, ForeignKeys, ForeignSigner,              *)
(* ForeignRecipient, CertSwapped map v to SETS of symbolic chunks.          *)
(* `Receive' is the receiver's decision procedure; the invariant: the       *)
(* receiver delivers only the unmodified chunk sealed under the keys it     *)
(* holds (DesignHolds).                                                     *)
(*                                                                          *)
(* Self-test constants (the design has Unsigned = {} and MutSkipMac = FALSE; *)
(* the check shows with TLC that either departure breaks the invariant):    *)
(*   Unsigned    regions a deviating receiver leaves out of the Mac         *)
(*   MutSkipMac  the receiver computes the Mac but ignores the comparison   *)
(***************************************************************************)
EXTENDS Integers, Sequences, FiniteSets, TLC

CONSTANTS KeyPairs,      \* <<sender key bits, receiver key bits>> of the OPN cases
          DevSignPadded, \* the pinned tree pads signed-only MSG chunks (see ChunkLayout.tla): the region "padding" exists in Sign mode
          Unsigned, MutSkipMac

Policies == {"Basic128Rsa15", "Basic256", "Basic256Sha256", "Aes128Sha256RsaOaep", "Aes256Sha256RsaPss"}
Modes == {"Sign", "SignAndEncrypt"}
Dirs == {"c2s", "s2c"}
KeyRange(p) == IF p \in {"Basic128Rsa15", "Basic256"} THEN 1024..2048 ELSE 2048..4096

Encrypted(c) == c.kind = "opn" \/ c.mode = "SignAndEncrypt"

\* byte regions of the chunk as it travels
HeaderRegions(c) ==
  {"type", "final", "size", "chan"}
  \cup (IF c.kind = "opn" THEN {"uri-len", "uri", "cert-len", "cert", "thumb-len", "thumb"} ELSE {"token"})
PayloadRegions(c) ==
  IF Encrypted(c) THEN {"ciphertext"}
  ELSE {"seqhdr", "body", "signature"} \cup (IF DevSignPadded THEN {"padding"} ELSE {})
Regions(c) == HeaderRegions(c) \cup PayloadRegions(c)

\* what the Mac / signature covers: everything in front of it
Signed(c) == (Regions(c) \ {"signature"}) \ Unsigned

-----------------------------------------------------------------------------
(* symbolic chunks *)
ValidChunk == [mod |-> {}, cut |-> "none", aligned |-> TRUE, sizeOK |-> TRUE, hdrOK |-> TRUE,
               seal |-> "held", signer |-> "header-cert", encTo |-> "receiver", thumb |-> "receiver", certOK |-> TRUE]

\* adversary actions; act = [k, arg, resize]
Act(k, arg, resize) == [k |-> k, arg |-> arg, resize |-> resize]

Actions(c) ==
  {Act("none", "", FALSE)}
  \cup {Act("flip", r, FALSE) : r \in Regions(c)}
  \cup {Act(k, "", z) : k \in {"truncate", "extend"}, z \in BOOLEAN}
  \cup (IF c.kind = "opn"
        THEN {Act("foreign-signer", "", FALSE), Act("cert-swapped", "", FALSE)}
             \cup {Act("foreign-recipient", t, FALSE) : t \in {"thumb-kept", "thumb-updated"}}
        ELSE {Act("foreign-keys", w, FALSE) : w \in {"client-nonce", "server-nonce", "both", "swapped"}})

LastRegion(c) == IF Encrypted(c) THEN "ciphertext" ELSE "signature"

\* the set of symbolic chunks an action can produce
Apply(c, a) ==
  CASE a.k = "none" -> {ValidChunk}
    [] a.k = "flip" ->
         \* changed type / final flag bytes may or may not still be a chunk header, a changed certificate may or may not still
         \* parse as a certificate; a changed size field no longer matches the length
         {[ValidChunk EXCEPT !.mod = {a.arg}, !.sizeOK = (a.arg # "size"), !.certOK = ok, !.hdrOK = h]
            : ok \in IF a.arg \in {"cert", "cert-len"} THEN BOOLEAN ELSE {TRUE}, h \in IF a.arg \in {"type", "final"} THEN BOOLEAN ELSE {TRUE}}
    [] a.k \in {"truncate", "extend"} ->
         \* bytes removed from / appended to the end: the last region changes, the cipher text may lose its block alignment;
         \* a truncation can reach any region in front; with resize the size field is rewritten to the new length
         {[ValidChunk EXCEPT !.mod = m \cup (IF a.resize THEN {"size"} ELSE {}), !.cut = IF a.k = "truncate" THEN "short" ELSE "long",
                             !.aligned = al, !.sizeOK = a.resize]
            : al \in BOOLEAN, m \in IF a.k = "extend" THEN {{LastRegion(c)}} ELSE {{LastRegion(c)} \cup s : s \in SUBSET (Regions(c) \ {"type", "final", "size"})}}
    [] a.k = "foreign-keys" -> {[ValidChunk EXCEPT !.seal = "foreign"]}
    [] a.k = "foreign-signer" -> {[ValidChunk EXCEPT !.signer = "other"]}
    [] a.k = "cert-swapped" -> {[ValidChunk EXCEPT !.mod = {"cert"}, !.signer = "other"]}
    [] a.k = "foreign-recipient" -> {[ValidChunk EXCEPT !.encTo = "other", !.thumb = IF a.arg = "thumb-updated" THEN "other" ELSE "receiver"]}

-----------------------------------------------------------------------------
(* the receiver: [out, why] *)
Rej(why) == [out |-> "rejected", why |-> why]

Receive(c, ch) ==
  LET plainIntact == \/ ~Encrypted(c)
                     \/ ("ciphertext" \notin ch.mod /\ ch.cut = "none" /\ ch.encTo = "receiver" /\ ch.seal = "held")
      macOK == /\ ch.seal = "held" /\ ch.signer = "header-cert"
               /\ ch.mod \cap Signed(c) = {}
               /\ "signature" \notin ch.mod
               /\ plainIntact
      \* what the receiver reads as the body is the sender's body
      bodySame == plainIntact /\ "body" \notin ch.mod /\ "seqhdr" \notin ch.mod
  IN IF ~ch.hdrOK THEN Rej("header")
     ELSE IF ~ch.sizeOK THEN Rej("size")
     ELSE IF c.kind = "opn" /\ ch.mod \cap {"uri", "uri-len"} # {} THEN Rej("policy-or-header")
     ELSE IF c.kind = "opn" /\ ~ch.certOK THEN Rej("certificate")
     ELSE IF c.kind = "opn" /\ (ch.thumb # "receiver" \/ ch.mod \cap {"thumb", "thumb-len"} # {}) THEN Rej("thumbprint")
     ELSE IF Encrypted(c) /\ ~ch.aligned THEN Rej("cipher-length")
     ELSE IF c.kind = "opn" /\ ~plainIntact THEN Rej("decrypt")                                       \* RSA padding check of a garbled block
     ELSE IF ~macOK /\ ~MutSkipMac THEN Rej("mac")
     ELSE IF Encrypted(c) /\ ~plainIntact THEN Rej("padding")                                         \* garbage never ends in valid padding
     ELSE [out |-> IF bodySame /\ ch.mod \cap {"type", "final"} = {} THEN "delivered-original" ELSE "delivered-other", why |-> ""]

Outcomes(c, a) == {Receive(c, ch).out : ch \in Apply(c, a)}
Reasons(c, a) == {Receive(c, ch).why : ch \in Apply(c, a)}

\* the property on the model
DesignHolds(c) == Outcomes(c, c.act) = IF c.act.k = "none" THEN {"delivered-original"} ELSE {"rejected"}

Expected(c) == [outcomes |-> Outcomes(c, c.act), reasons |-> Reasons(c, c.act)]

-----------------------------------------------------------------------------
(* L2: the judge.  r.outcomes = the set of outcomes over every concrete instance of the action (every byte position of  *)
(* the region x bit 0 / bit 7, every prefix length, ...), r.n = number of instances fed to the receiver.                 *)
ActName(a) == a.k \o (IF a.arg # "" THEN ":" \o a.arg ELSE "") \o (IF a.resize THEN ":size-rewritten" ELSE "")
Has(r, o) == \E i \in 1..Len(r.outcomes) : r.outcomes[i] = o

TamperViol(e) ==
  LET c == e.c
      r == e.r
      a == c.act
  IN IF r.fail # "none" THEN {"case-not-built:" \o r.site}
     ELSE IF a.k = "none"
     THEN (IF r.n = 1 /\ Has(r, "delivered-original") /\ Len(r.outcomes) = 1 THEN {} ELSE {"valid-chunk-not-delivered"})
     ELSE (IF Has(r, "delivered-original") THEN {"modified-chunk-delivered-as-the-original-message:" \o ActName(a)} ELSE {})
          \cup (IF Has(r, "delivered-other") THEN {"modified-chunk-delivered-as-another-message:" \o ActName(a)} ELSE {})
          \cup (IF Has(r, "accepted-undecodable") THEN {"modified-chunk-passed-the-security-checks:" \o ActName(a)} ELSE {})
=============================================================================
