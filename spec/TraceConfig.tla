----------------------------- MODULE TraceConfig -----------------------------
EXTENDS Config, Json, IOUtils
ObsLog == ndJsonDeserialize(IOEnv.OBS)
VARIABLES l, out
T == INSTANCE TraceFn WITH Viol <- RtViol, Prop <- "C41", Obs <- ObsLog
TSpec == T!TSpec
=============================================================================
