-------------------------- MODULE TraceKeyDerivation --------------------------
EXTENDS KeyDerivation, Json, IOUtils
ObsLog == ndJsonDeserialize(IOEnv.OBS)
VARIABLES l, out
T == INSTANCE TraceFn WITH Viol <- KeyViol, Prop <- "C13", Obs <- ObsLog
TSpec == T!TSpec
=============================================================================
