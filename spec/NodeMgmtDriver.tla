--------------------------- MODULE NodeMgmtDriver ---------------------------
EXTENDS NodeMgmt
CONSTANTS Acts, MaxDepth, TRs      \* TRs: the delete_target_references flags DeleteNodes is tried with
VARIABLES depth
DInit == Init /\ depth = 0
Ids == 1..K
DNext ==
  /\ depth < MaxDepth /\ depth' = depth + 1
  /\ \/ "AddNode" \in Acts /\ \E par \in {0, 9} \cup Ids, t \in Types, rid \in 0..3, nm \in Names :
          (par \in nodes \/ par = 9) /\ AddNode(par, t, rid, nm)
     \/ "AddRef" \in Acts /\ \E a \in nodes \cup {9}, t \in Types, b \in nodes \cup {9}, f \in BOOLEAN : AddRef(a, t, b, f)
     \/ "DelRef" \in Acts /\ \E a \in nodes, t \in Types, b \in nodes, f \in BOOLEAN, bi \in BOOLEAN :
          (bi => f) /\ DelRef(a, t, b, f, bi)
     \/ "DelNode" \in Acts
        /\ \E n \in {i \in Ids : i \in nodes \/ (\E r \in refs : r[1] = i \/ r[3] = i)} \cup {9}, tr \in TRs : DelNode(n, tr)
Done == depth = MaxDepth
=============================================================================
