------------------------------- MODULE NumLine -------------------------------
(***************************************************************************)
(* C06  Implicit Variant conversion never changes a numeric value.          *)
(*                                                                          *)
(* An abstract, ordered number line.  A point is a NAME (a string that      *)
(* reads as the number it denotes: "-2^63+1", "2^31-0.5", "255.75",         *)
(* "f32max" ...); TLC never computes with the numbers themselves, only      *)
(* with the position of a point on the line and with the attributes in the  *)
(* table: integer or not, the neighbouring integers and which of them is    *)
(* nearer, exactly representable in binary32 / binary64 or else the         *)
(* nearest representable point(s).  The table holds the extremes of every   *)
(* integer type and their neighbours, the x.25 / x.5 / x.75 neighbours that *)
(* decide rounding, the largest binary32/binary64-exact integers and the    *)
(* largest finite floats.  NaN and the infinities are values off the line.  *)
(* Each of the eleven numeric types is an interval of the line.             *)
(*                                                                          *)
(* The harness derives the concrete Rust value from the NAME alone and      *)
(* re-computes every attribute of this table with exact i128 arithmetic     *)
(* (case "table"); checks/numline_gen.py computes the same table with       *)
(* exact rationals.                                                         *)
(*                                                                          *)
(* record:  n name, k "int" | "lo" | "tie" | "hi" (an integer; or a         *)
(* fraction whose nearest integer is the floor / either / the ceiling),     *)
(* fl, ce floor and ceiling points, e32 / e64 exactly representable,        *)
(* n32 / n64 the nearest representable points (two on a tie, the first has  *)
(* the even significand; none beyond the largest finite value).             *)
(***************************************************************************)
EXTENDS Integers, Sequences, FiniteSets, TLC

BaseLine == <<
  [n |-> "-f64max", k |-> "int", fl |-> "-f64max", ce |-> "-f64max", e32 |-> FALSE, e64 |-> TRUE, n32 |-> <<>>, n64 |-> <<"-f64max">>],
  [n |-> "-2^128", k |-> "int", fl |-> "-2^128", ce |-> "-2^128", e32 |-> FALSE, e64 |-> TRUE, n32 |-> <<>>, n64 |-> <<"-2^128">>],
  [n |-> "-f32max", k |-> "int", fl |-> "-f32max", ce |-> "-f32max", e32 |-> TRUE, e64 |-> TRUE, n32 |-> <<"-f32max">>, n64 |-> <<"-f32max">>],
  [n |-> "-2^63-2^40", k |-> "int", fl |-> "-2^63-2^40", ce |-> "-2^63-2^40", e32 |-> TRUE, e64 |-> TRUE, n32 |-> <<"-2^63-2^40">>, n64 |-> <<"-2^63-2^40">>],
  [n |-> "-2^63-2048", k |-> "int", fl |-> "-2^63-2048", ce |-> "-2^63-2048", e32 |-> FALSE, e64 |-> TRUE, n32 |-> <<"-2^63">>, n64 |-> <<"-2^63-2048">>],
  [n |-> "-2^63", k |-> "int", fl |-> "-2^63", ce |-> "-2^63", e32 |-> TRUE, e64 |-> TRUE, n32 |-> <<"-2^63">>, n64 |-> <<"-2^63">>],
  [n |-> "-2^63+1", k |-> "int", fl |-> "-2^63+1", ce |-> "-2^63+1", e32 |-> FALSE, e64 |-> FALSE, n32 |-> <<"-2^63">>, n64 |-> <<"-2^63">>],
  [n |-> "-2^63+1024", k |-> "int", fl |-> "-2^63+1024", ce |-> "-2^63+1024", e32 |-> FALSE, e64 |-> TRUE, n32 |-> <<"-2^63">>, n64 |-> <<"-2^63+1024">>],
  [n |-> "-2^63+2^39", k |-> "int", fl |-> "-2^63+2^39", ce |-> "-2^63+2^39", e32 |-> TRUE, e64 |-> TRUE, n32 |-> <<"-2^63+2^39">>, n64 |-> <<"-2^63+2^39">>],
  [n |-> "-2^53-2", k |-> "int", fl |-> "-2^53-2", ce |-> "-2^53-2", e32 |-> FALSE, e64 |-> TRUE, n32 |-> <<"-2^53">>, n64 |-> <<"-2^53-2">>],
  [n |-> "-2^53-1", k |-> "int", fl |-> "-2^53-1", ce |-> "-2^53-1", e32 |-> FALSE, e64 |-> FALSE, n32 |-> <<"-2^53">>, n64 |-> <<"-2^53", "-2^53-2">>],
  [n |-> "-2^53", k |-> "int", fl |-> "-2^53", ce |-> "-2^53", e32 |-> TRUE, e64 |-> TRUE, n32 |-> <<"-2^53">>, n64 |-> <<"-2^53">>],
  [n |-> "-2^31-256", k |-> "int", fl |-> "-2^31-256", ce |-> "-2^31-256", e32 |-> TRUE, e64 |-> TRUE, n32 |-> <<"-2^31-256">>, n64 |-> <<"-2^31-256">>],
  [n |-> "-2^31-1", k |-> "int", fl |-> "-2^31-1", ce |-> "-2^31-1", e32 |-> FALSE, e64 |-> TRUE, n32 |-> <<"-2^31">>, n64 |-> <<"-2^31-1">>],
  [n |-> "-2^31-0.75", k |-> "lo", fl |-> "-2^31-1", ce |-> "-2^31", e32 |-> FALSE, e64 |-> TRUE, n32 |-> <<"-2^31">>, n64 |-> <<"-2^31-0.75">>],
  [n |-> "-2^31-0.5", k |-> "tie", fl |-> "-2^31-1", ce |-> "-2^31", e32 |-> FALSE, e64 |-> TRUE, n32 |-> <<"-2^31">>, n64 |-> <<"-2^31-0.5">>],
  [n |-> "-2^31-0.25", k |-> "hi", fl |-> "-2^31-1", ce |-> "-2^31", e32 |-> FALSE, e64 |-> TRUE, n32 |-> <<"-2^31">>, n64 |-> <<"-2^31-0.25">>],
  [n |-> "-2^31", k |-> "int", fl |-> "-2^31", ce |-> "-2^31", e32 |-> TRUE, e64 |-> TRUE, n32 |-> <<"-2^31">>, n64 |-> <<"-2^31">>],
  [n |-> "-2^31+1", k |-> "int", fl |-> "-2^31+1", ce |-> "-2^31+1", e32 |-> FALSE, e64 |-> TRUE, n32 |-> <<"-2^31">>, n64 |-> <<"-2^31+1">>],
  [n |-> "-2^31+128", k |-> "int", fl |-> "-2^31+128", ce |-> "-2^31+128", e32 |-> TRUE, e64 |-> TRUE, n32 |-> <<"-2^31+128">>, n64 |-> <<"-2^31+128">>],
  [n |-> "-2^24-2", k |-> "int", fl |-> "-2^24-2", ce |-> "-2^24-2", e32 |-> TRUE, e64 |-> TRUE, n32 |-> <<"-2^24-2">>, n64 |-> <<"-2^24-2">>],
  [n |-> "-2^24-1", k |-> "int", fl |-> "-2^24-1", ce |-> "-2^24-1", e32 |-> FALSE, e64 |-> TRUE, n32 |-> <<"-2^24", "-2^24-2">>, n64 |-> <<"-2^24-1">>],
  [n |-> "-2^24", k |-> "int", fl |-> "-2^24", ce |-> "-2^24", e32 |-> TRUE, e64 |-> TRUE, n32 |-> <<"-2^24">>, n64 |-> <<"-2^24">>],
  [n |-> "-32769", k |-> "int", fl |-> "-32769", ce |-> "-32769", e32 |-> TRUE, e64 |-> TRUE, n32 |-> <<"-32769">>, n64 |-> <<"-32769">>],
  [n |-> "-32768.75", k |-> "lo", fl |-> "-32769", ce |-> "-32768", e32 |-> TRUE, e64 |-> TRUE, n32 |-> <<"-32768.75">>, n64 |-> <<"-32768.75">>],
  [n |-> "-32768.5", k |-> "tie", fl |-> "-32769", ce |-> "-32768", e32 |-> TRUE, e64 |-> TRUE, n32 |-> <<"-32768.5">>, n64 |-> <<"-32768.5">>],
  [n |-> "-32768.25", k |-> "hi", fl |-> "-32769", ce |-> "-32768", e32 |-> TRUE, e64 |-> TRUE, n32 |-> <<"-32768.25">>, n64 |-> <<"-32768.25">>],
  [n |-> "-32768", k |-> "int", fl |-> "-32768", ce |-> "-32768", e32 |-> TRUE, e64 |-> TRUE, n32 |-> <<"-32768">>, n64 |-> <<"-32768">>],
  [n |-> "-32767", k |-> "int", fl |-> "-32767", ce |-> "-32767", e32 |-> TRUE, e64 |-> TRUE, n32 |-> <<"-32767">>, n64 |-> <<"-32767">>],
  [n |-> "-129", k |-> "int", fl |-> "-129", ce |-> "-129", e32 |-> TRUE, e64 |-> TRUE, n32 |-> <<"-129">>, n64 |-> <<"-129">>],
  [n |-> "-128.75", k |-> "lo", fl |-> "-129", ce |-> "-128", e32 |-> TRUE, e64 |-> TRUE, n32 |-> <<"-128.75">>, n64 |-> <<"-128.75">>],
  [n |-> "-128.5", k |-> "tie", fl |-> "-129", ce |-> "-128", e32 |-> TRUE, e64 |-> TRUE, n32 |-> <<"-128.5">>, n64 |-> <<"-128.5">>],
  [n |-> "-128.25", k |-> "hi", fl |-> "-129", ce |-> "-128", e32 |-> TRUE, e64 |-> TRUE, n32 |-> <<"-128.25">>, n64 |-> <<"-128.25">>],
  [n |-> "-128", k |-> "int", fl |-> "-128", ce |-> "-128", e32 |-> TRUE, e64 |-> TRUE, n32 |-> <<"-128">>, n64 |-> <<"-128">>],
  [n |-> "-127.5", k |-> "tie", fl |-> "-128", ce |-> "-127", e32 |-> TRUE, e64 |-> TRUE, n32 |-> <<"-127.5">>, n64 |-> <<"-127.5">>],
  [n |-> "-127", k |-> "int", fl |-> "-127", ce |-> "-127", e32 |-> TRUE, e64 |-> TRUE, n32 |-> <<"-127">>, n64 |-> <<"-127">>],
  [n |-> "-2", k |-> "int", fl |-> "-2", ce |-> "-2", e32 |-> TRUE, e64 |-> TRUE, n32 |-> <<"-2">>, n64 |-> <<"-2">>],
  [n |-> "-1.5", k |-> "tie", fl |-> "-2", ce |-> "-1", e32 |-> TRUE, e64 |-> TRUE, n32 |-> <<"-1.5">>, n64 |-> <<"-1.5">>],
  [n |-> "-1", k |-> "int", fl |-> "-1", ce |-> "-1", e32 |-> TRUE, e64 |-> TRUE, n32 |-> <<"-1">>, n64 |-> <<"-1">>],
  [n |-> "-0.75", k |-> "lo", fl |-> "-1", ce |-> "0", e32 |-> TRUE, e64 |-> TRUE, n32 |-> <<"-0.75">>, n64 |-> <<"-0.75">>],
  [n |-> "-0.5", k |-> "tie", fl |-> "-1", ce |-> "0", e32 |-> TRUE, e64 |-> TRUE, n32 |-> <<"-0.5">>, n64 |-> <<"-0.5">>],
  [n |-> "-0.25", k |-> "hi", fl |-> "-1", ce |-> "0", e32 |-> TRUE, e64 |-> TRUE, n32 |-> <<"-0.25">>, n64 |-> <<"-0.25">>],
  [n |-> "0", k |-> "int", fl |-> "0", ce |-> "0", e32 |-> TRUE, e64 |-> TRUE, n32 |-> <<"0">>, n64 |-> <<"0">>],
  [n |-> "tiny64", k |-> "lo", fl |-> "0", ce |-> "1", e32 |-> FALSE, e64 |-> TRUE, n32 |-> <<"0">>, n64 |-> <<"tiny64">>],
  [n |-> "tiny32", k |-> "lo", fl |-> "0", ce |-> "1", e32 |-> TRUE, e64 |-> TRUE, n32 |-> <<"tiny32">>, n64 |-> <<"tiny32">>],
  [n |-> "0.25", k |-> "lo", fl |-> "0", ce |-> "1", e32 |-> TRUE, e64 |-> TRUE, n32 |-> <<"0.25">>, n64 |-> <<"0.25">>],
  [n |-> "pred0.5_32", k |-> "lo", fl |-> "0", ce |-> "1", e32 |-> TRUE, e64 |-> TRUE, n32 |-> <<"pred0.5_32">>, n64 |-> <<"pred0.5_32">>],
  [n |-> "pred0.5_64", k |-> "lo", fl |-> "0", ce |-> "1", e32 |-> FALSE, e64 |-> TRUE, n32 |-> <<"0.5">>, n64 |-> <<"pred0.5_64">>],
  [n |-> "0.5", k |-> "tie", fl |-> "0", ce |-> "1", e32 |-> TRUE, e64 |-> TRUE, n32 |-> <<"0.5">>, n64 |-> <<"0.5">>],
  [n |-> "0.75", k |-> "hi", fl |-> "0", ce |-> "1", e32 |-> TRUE, e64 |-> TRUE, n32 |-> <<"0.75">>, n64 |-> <<"0.75">>],
  [n |-> "1", k |-> "int", fl |-> "1", ce |-> "1", e32 |-> TRUE, e64 |-> TRUE, n32 |-> <<"1">>, n64 |-> <<"1">>],
  [n |-> "1.5", k |-> "tie", fl |-> "1", ce |-> "2", e32 |-> TRUE, e64 |-> TRUE, n32 |-> <<"1.5">>, n64 |-> <<"1.5">>],
  [n |-> "2", k |-> "int", fl |-> "2", ce |-> "2", e32 |-> TRUE, e64 |-> TRUE, n32 |-> <<"2">>, n64 |-> <<"2">>],
  [n |-> "2.5", k |-> "tie", fl |-> "2", ce |-> "3", e32 |-> TRUE, e64 |-> TRUE, n32 |-> <<"2.5">>, n64 |-> <<"2.5">>],
  [n |-> "3", k |-> "int", fl |-> "3", ce |-> "3", e32 |-> TRUE, e64 |-> TRUE, n32 |-> <<"3">>, n64 |-> <<"3">>],
  [n |-> "127", k |-> "int", fl |-> "127", ce |-> "127", e32 |-> TRUE, e64 |-> TRUE, n32 |-> <<"127">>, n64 |-> <<"127">>],
  [n |-> "127.25", k |-> "lo", fl |-> "127", ce |-> "128", e32 |-> TRUE, e64 |-> TRUE, n32 |-> <<"127.25">>, n64 |-> <<"127.25">>],
  [n |-> "127.5", k |-> "tie", fl |-> "127", ce |-> "128", e32 |-> TRUE, e64 |-> TRUE, n32 |-> <<"127.5">>, n64 |-> <<"127.5">>],
  [n |-> "127.75", k |-> "hi", fl |-> "127", ce |-> "128", e32 |-> TRUE, e64 |-> TRUE, n32 |-> <<"127.75">>, n64 |-> <<"127.75">>],
  [n |-> "128", k |-> "int", fl |-> "128", ce |-> "128", e32 |-> TRUE, e64 |-> TRUE, n32 |-> <<"128">>, n64 |-> <<"128">>],
  [n |-> "200", k |-> "int", fl |-> "200", ce |-> "200", e32 |-> TRUE, e64 |-> TRUE, n32 |-> <<"200">>, n64 |-> <<"200">>],
  [n |-> "255", k |-> "int", fl |-> "255", ce |-> "255", e32 |-> TRUE, e64 |-> TRUE, n32 |-> <<"255">>, n64 |-> <<"255">>],
  [n |-> "255.25", k |-> "lo", fl |-> "255", ce |-> "256", e32 |-> TRUE, e64 |-> TRUE, n32 |-> <<"255.25">>, n64 |-> <<"255.25">>],
  [n |-> "255.5", k |-> "tie", fl |-> "255", ce |-> "256", e32 |-> TRUE, e64 |-> TRUE, n32 |-> <<"255.5">>, n64 |-> <<"255.5">>],
  [n |-> "255.75", k |-> "hi", fl |-> "255", ce |-> "256", e32 |-> TRUE, e64 |-> TRUE, n32 |-> <<"255.75">>, n64 |-> <<"255.75">>],
  [n |-> "256", k |-> "int", fl |-> "256", ce |-> "256", e32 |-> TRUE, e64 |-> TRUE, n32 |-> <<"256">>, n64 |-> <<"256">>],
  [n |-> "32767", k |-> "int", fl |-> "32767", ce |-> "32767", e32 |-> TRUE, e64 |-> TRUE, n32 |-> <<"32767">>, n64 |-> <<"32767">>],
  [n |-> "32767.25", k |-> "lo", fl |-> "32767", ce |-> "32768", e32 |-> TRUE, e64 |-> TRUE, n32 |-> <<"32767.25">>, n64 |-> <<"32767.25">>],
  [n |-> "32767.5", k |-> "tie", fl |-> "32767", ce |-> "32768", e32 |-> TRUE, e64 |-> TRUE, n32 |-> <<"32767.5">>, n64 |-> <<"32767.5">>],
  [n |-> "32767.75", k |-> "hi", fl |-> "32767", ce |-> "32768", e32 |-> TRUE, e64 |-> TRUE, n32 |-> <<"32767.75">>, n64 |-> <<"32767.75">>],
  [n |-> "32768", k |-> "int", fl |-> "32768", ce |-> "32768", e32 |-> TRUE, e64 |-> TRUE, n32 |-> <<"32768">>, n64 |-> <<"32768">>],
  [n |-> "65535", k |-> "int", fl |-> "65535", ce |-> "65535", e32 |-> TRUE, e64 |-> TRUE, n32 |-> <<"65535">>, n64 |-> <<"65535">>],
  [n |-> "65535.25", k |-> "lo", fl |-> "65535", ce |-> "65536", e32 |-> TRUE, e64 |-> TRUE, n32 |-> <<"65535.25">>, n64 |-> <<"65535.25">>],
  [n |-> "65535.5", k |-> "tie", fl |-> "65535", ce |-> "65536", e32 |-> TRUE, e64 |-> TRUE, n32 |-> <<"65535.5">>, n64 |-> <<"65535.5">>],
  [n |-> "65535.75", k |-> "hi", fl |-> "65535", ce |-> "65536", e32 |-> TRUE, e64 |-> TRUE, n32 |-> <<"65535.75">>, n64 |-> <<"65535.75">>],
  [n |-> "65536", k |-> "int", fl |-> "65536", ce |-> "65536", e32 |-> TRUE, e64 |-> TRUE, n32 |-> <<"65536">>, n64 |-> <<"65536">>],
  [n |-> "2^23+1", k |-> "int", fl |-> "2^23+1", ce |-> "2^23+1", e32 |-> TRUE, e64 |-> TRUE, n32 |-> <<"2^23+1">>, n64 |-> <<"2^23+1">>],
  [n |-> "2^23+2", k |-> "int", fl |-> "2^23+2", ce |-> "2^23+2", e32 |-> TRUE, e64 |-> TRUE, n32 |-> <<"2^23+2">>, n64 |-> <<"2^23+2">>],
  [n |-> "2^24-1", k |-> "int", fl |-> "2^24-1", ce |-> "2^24-1", e32 |-> TRUE, e64 |-> TRUE, n32 |-> <<"2^24-1">>, n64 |-> <<"2^24-1">>],
  [n |-> "2^24", k |-> "int", fl |-> "2^24", ce |-> "2^24", e32 |-> TRUE, e64 |-> TRUE, n32 |-> <<"2^24">>, n64 |-> <<"2^24">>],
  [n |-> "2^24+1", k |-> "int", fl |-> "2^24+1", ce |-> "2^24+1", e32 |-> FALSE, e64 |-> TRUE, n32 |-> <<"2^24", "2^24+2">>, n64 |-> <<"2^24+1">>],
  [n |-> "2^24+2", k |-> "int", fl |-> "2^24+2", ce |-> "2^24+2", e32 |-> TRUE, e64 |-> TRUE, n32 |-> <<"2^24+2">>, n64 |-> <<"2^24+2">>],
  [n |-> "2^31-128", k |-> "int", fl |-> "2^31-128", ce |-> "2^31-128", e32 |-> TRUE, e64 |-> TRUE, n32 |-> <<"2^31-128">>, n64 |-> <<"2^31-128">>],
  [n |-> "2^31-1", k |-> "int", fl |-> "2^31-1", ce |-> "2^31-1", e32 |-> FALSE, e64 |-> TRUE, n32 |-> <<"2^31">>, n64 |-> <<"2^31-1">>],
  [n |-> "2^31-0.75", k |-> "lo", fl |-> "2^31-1", ce |-> "2^31", e32 |-> FALSE, e64 |-> TRUE, n32 |-> <<"2^31">>, n64 |-> <<"2^31-0.75">>],
  [n |-> "2^31-0.5", k |-> "tie", fl |-> "2^31-1", ce |-> "2^31", e32 |-> FALSE, e64 |-> TRUE, n32 |-> <<"2^31">>, n64 |-> <<"2^31-0.5">>],
  [n |-> "2^31-0.25", k |-> "hi", fl |-> "2^31-1", ce |-> "2^31", e32 |-> FALSE, e64 |-> TRUE, n32 |-> <<"2^31">>, n64 |-> <<"2^31-0.25">>],
  [n |-> "2^31", k |-> "int", fl |-> "2^31", ce |-> "2^31", e32 |-> TRUE, e64 |-> TRUE, n32 |-> <<"2^31">>, n64 |-> <<"2^31">>],
  [n |-> "2^31+1", k |-> "int", fl |-> "2^31+1", ce |-> "2^31+1", e32 |-> FALSE, e64 |-> TRUE, n32 |-> <<"2^31">>, n64 |-> <<"2^31+1">>],
  [n |-> "2^31+256", k |-> "int", fl |-> "2^31+256", ce |-> "2^31+256", e32 |-> TRUE, e64 |-> TRUE, n32 |-> <<"2^31+256">>, n64 |-> <<"2^31+256">>],
  [n |-> "2^32-256", k |-> "int", fl |-> "2^32-256", ce |-> "2^32-256", e32 |-> TRUE, e64 |-> TRUE, n32 |-> <<"2^32-256">>, n64 |-> <<"2^32-256">>],
  [n |-> "2^32-1", k |-> "int", fl |-> "2^32-1", ce |-> "2^32-1", e32 |-> FALSE, e64 |-> TRUE, n32 |-> <<"2^32">>, n64 |-> <<"2^32-1">>],
  [n |-> "2^32-0.75", k |-> "lo", fl |-> "2^32-1", ce |-> "2^32", e32 |-> FALSE, e64 |-> TRUE, n32 |-> <<"2^32">>, n64 |-> <<"2^32-0.75">>],
  [n |-> "2^32-0.5", k |-> "tie", fl |-> "2^32-1", ce |-> "2^32", e32 |-> FALSE, e64 |-> TRUE, n32 |-> <<"2^32">>, n64 |-> <<"2^32-0.5">>],
  [n |-> "2^32-0.25", k |-> "hi", fl |-> "2^32-1", ce |-> "2^32", e32 |-> FALSE, e64 |-> TRUE, n32 |-> <<"2^32">>, n64 |-> <<"2^32-0.25">>],
  [n |-> "2^32", k |-> "int", fl |-> "2^32", ce |-> "2^32", e32 |-> TRUE, e64 |-> TRUE, n32 |-> <<"2^32">>, n64 |-> <<"2^32">>],
  [n |-> "2^32+1", k |-> "int", fl |-> "2^32+1", ce |-> "2^32+1", e32 |-> FALSE, e64 |-> TRUE, n32 |-> <<"2^32">>, n64 |-> <<"2^32+1">>],
  [n |-> "2^32+512", k |-> "int", fl |-> "2^32+512", ce |-> "2^32+512", e32 |-> TRUE, e64 |-> TRUE, n32 |-> <<"2^32+512">>, n64 |-> <<"2^32+512">>],
  [n |-> "2^52", k |-> "int", fl |-> "2^52", ce |-> "2^52", e32 |-> TRUE, e64 |-> TRUE, n32 |-> <<"2^52">>, n64 |-> <<"2^52">>],
  [n |-> "2^52+1", k |-> "int", fl |-> "2^52+1", ce |-> "2^52+1", e32 |-> FALSE, e64 |-> TRUE, n32 |-> <<"2^52">>, n64 |-> <<"2^52+1">>],
  [n |-> "2^52+2", k |-> "int", fl |-> "2^52+2", ce |-> "2^52+2", e32 |-> FALSE, e64 |-> TRUE, n32 |-> <<"2^52">>, n64 |-> <<"2^52+2">>],
  [n |-> "2^53-1", k |-> "int", fl |-> "2^53-1", ce |-> "2^53-1", e32 |-> FALSE, e64 |-> TRUE, n32 |-> <<"2^53">>, n64 |-> <<"2^53-1">>],
  [n |-> "2^53", k |-> "int", fl |-> "2^53", ce |-> "2^53", e32 |-> TRUE, e64 |-> TRUE, n32 |-> <<"2^53">>, n64 |-> <<"2^53">>],
  [n |-> "2^53+1", k |-> "int", fl |-> "2^53+1", ce |-> "2^53+1", e32 |-> FALSE, e64 |-> FALSE, n32 |-> <<"2^53">>, n64 |-> <<"2^53", "2^53+2">>],
  [n |-> "2^53+2", k |-> "int", fl |-> "2^53+2", ce |-> "2^53+2", e32 |-> FALSE, e64 |-> TRUE, n32 |-> <<"2^53">>, n64 |-> <<"2^53+2">>],
  [n |-> "2^63-2^39", k |-> "int", fl |-> "2^63-2^39", ce |-> "2^63-2^39", e32 |-> TRUE, e64 |-> TRUE, n32 |-> <<"2^63-2^39">>, n64 |-> <<"2^63-2^39">>],
  [n |-> "2^63-1024", k |-> "int", fl |-> "2^63-1024", ce |-> "2^63-1024", e32 |-> FALSE, e64 |-> TRUE, n32 |-> <<"2^63">>, n64 |-> <<"2^63-1024">>],
  [n |-> "2^63-1", k |-> "int", fl |-> "2^63-1", ce |-> "2^63-1", e32 |-> FALSE, e64 |-> FALSE, n32 |-> <<"2^63">>, n64 |-> <<"2^63">>],
  [n |-> "2^63", k |-> "int", fl |-> "2^63", ce |-> "2^63", e32 |-> TRUE, e64 |-> TRUE, n32 |-> <<"2^63">>, n64 |-> <<"2^63">>],
  [n |-> "2^63+1", k |-> "int", fl |-> "2^63+1", ce |-> "2^63+1", e32 |-> FALSE, e64 |-> FALSE, n32 |-> <<"2^63">>, n64 |-> <<"2^63">>],
  [n |-> "2^63+2048", k |-> "int", fl |-> "2^63+2048", ce |-> "2^63+2048", e32 |-> FALSE, e64 |-> TRUE, n32 |-> <<"2^63">>, n64 |-> <<"2^63+2048">>],
  [n |-> "2^63+2^40", k |-> "int", fl |-> "2^63+2^40", ce |-> "2^63+2^40", e32 |-> TRUE, e64 |-> TRUE, n32 |-> <<"2^63+2^40">>, n64 |-> <<"2^63+2^40">>],
  [n |-> "2^64-2^40", k |-> "int", fl |-> "2^64-2^40", ce |-> "2^64-2^40", e32 |-> TRUE, e64 |-> TRUE, n32 |-> <<"2^64-2^40">>, n64 |-> <<"2^64-2^40">>],
  [n |-> "2^64-2048", k |-> "int", fl |-> "2^64-2048", ce |-> "2^64-2048", e32 |-> FALSE, e64 |-> TRUE, n32 |-> <<"2^64">>, n64 |-> <<"2^64-2048">>],
  [n |-> "2^64-1", k |-> "int", fl |-> "2^64-1", ce |-> "2^64-1", e32 |-> FALSE, e64 |-> FALSE, n32 |-> <<"2^64">>, n64 |-> <<"2^64">>],
  [n |-> "2^64", k |-> "int", fl |-> "2^64", ce |-> "2^64", e32 |-> TRUE, e64 |-> TRUE, n32 |-> <<"2^64">>, n64 |-> <<"2^64">>],
  [n |-> "2^64+4096", k |-> "int", fl |-> "2^64+4096", ce |-> "2^64+4096", e32 |-> FALSE, e64 |-> TRUE, n32 |-> <<"2^64">>, n64 |-> <<"2^64+4096">>],
  [n |-> "2^64+2^41", k |-> "int", fl |-> "2^64+2^41", ce |-> "2^64+2^41", e32 |-> TRUE, e64 |-> TRUE, n32 |-> <<"2^64+2^41">>, n64 |-> <<"2^64+2^41">>],
  [n |-> "f32max", k |-> "int", fl |-> "f32max", ce |-> "f32max", e32 |-> TRUE, e64 |-> TRUE, n32 |-> <<"f32max">>, n64 |-> <<"f32max">>],
  [n |-> "2^128", k |-> "int", fl |-> "2^128", ce |-> "2^128", e32 |-> FALSE, e64 |-> TRUE, n32 |-> <<>>, n64 |-> <<"2^128">>],
  [n |-> "f64max", k |-> "int", fl |-> "f64max", ce |-> "f64max", e32 |-> FALSE, e64 |-> TRUE, n32 |-> <<>>, n64 |-> <<"f64max">>]
>>

\* the line in use (the thorough tier substitutes BaseLine extended with seeded interior points)
Line == BaseLine

-----------------------------------------------------------------------------
N == Len(Line)
Names == {Line[i].n : i \in 1..N}
PosOf == TLCEval([n \in Names |-> CHOOSE i \in 1..N : Line[i].n = n])      \* forced: an explicit table, not a lazy function
At(n) == Line[PosOf[n]]

NaN == "nan"
PInf == "+inf"
NInf == "-inf"
Specials == {NaN, PInf, NInf}
Values == Names \cup Specials

IntTypes == {"SByte", "Byte", "Int16", "UInt16", "Int32", "UInt32", "Int64", "UInt64"}
FloatTypes == {"Float", "Double"}
NumTypes == IntTypes \cup FloatTypes \cup {"Boolean"}          \* the eleven numeric types
TypeSeq == <<"Boolean", "SByte", "Byte", "Int16", "UInt16", "Int32", "UInt32", "Int64", "UInt64", "Float", "Double">>

\* every type is an interval of the line
Lo == [t \in NumTypes |->
        CASE t = "Boolean" -> "0" [] t = "SByte" -> "-128" [] t = "Byte" -> "0" [] t = "Int16" -> "-32768"
          [] t = "UInt16" -> "0" [] t = "Int32" -> "-2^31" [] t = "UInt32" -> "0" [] t = "Int64" -> "-2^63"
          [] t = "UInt64" -> "0" [] t = "Float" -> "-f32max" [] t = "Double" -> "-f64max"]
Hi == [t \in NumTypes |->
        CASE t = "Boolean" -> "1" [] t = "SByte" -> "127" [] t = "Byte" -> "255" [] t = "Int16" -> "32767"
          [] t = "UInt16" -> "65535" [] t = "Int32" -> "2^31-1" [] t = "UInt32" -> "2^32-1" [] t = "Int64" -> "2^63-1"
          [] t = "UInt64" -> "2^64-1" [] t = "Float" -> "f32max" [] t = "Double" -> "f64max"]

Le(p, q) == PosOf[p] <= PosOf[q]
\* the NUMBER p lies in the range of type t (NaN and the infinities are values of the floating point types only)
InRange(p, t) == IF p \in Specials THEN t \in FloatTypes ELSE Le(Lo[t], p) /\ Le(p, Hi[t])
\* p is a value of type t (a possible source value)
ValueOf(p, t) ==
  CASE t = "Boolean" -> p \in {"0", "1"}
    [] t \in IntTypes -> p \in Names /\ At(p).k = "int" /\ InRange(p, t)
    [] t = "Float" -> p \in Specials \/ At(p).e32
    [] t = "Double" -> p \in Specials \/ At(p).e64
Elems(s) == {s[i] : i \in DOMAIN s}

\* the values of type t that denote the number p: p itself for an integer type (exactly), the nearest
\* representable value(s) for a floating point type
Denotes(p, t) ==
  IF p \in Specials THEN (IF t \in FloatTypes THEN {p} ELSE {})
  ELSE CASE t = "Float" -> Elems(At(p).n32)
         [] t = "Double" -> Elems(At(p).n64)
         [] OTHER -> IF At(p).k = "int" THEN {p} ELSE {}

\* round to nearest integer: both neighbours are nearest on a tie; NaN and the infinities have no rounded value
Rounded(p) ==
  IF p \in Specials THEN {}
  ELSE LET a == At(p) IN
       CASE a.k = "int" -> {p} [] a.k = "lo" -> {a.fl} [] a.k = "hi" -> {a.ce} [] a.k = "tie" -> {a.fl, a.ce}

-----------------------------------------------------------------------------
(* Results: [t |-> type or "Empty", p |-> point or "?", fail |-> "none" | "panic", ...].  A call that did not     *)
(* return (panic) yields no result.                                                                              *)
IsEmpty(r) == r.fail # "none" \/ r.t = "Empty"

(* L2, implicit conversion: when the conversion succeeds the result denotes the same number (exactly for integer  *)
(* targets, nearest representable for floating point targets); a value outside the target's range yields no      *)
(* result.                                                                                                       *)
ConvertViol(c, r) ==
  IF IsEmpty(r) THEN {}
  ELSE IF r.t # c.dst THEN {"result-of-another-type"}
  ELSE IF ~InRange(c.p, c.dst) THEN {"out-of-range-value-converted"}
  ELSE IF r.p \notin Denotes(c.p, c.dst) THEN {"converted-value-differs"}
  ELSE {}

(* L2, explicit cast to an integer type: rounds to nearest and yields no result exactly when the rounded value is *)
(* out of range.  On a tie both neighbours are nearest, so at a boundary tie either outcome is accepted.          *)
CastIntViol(c, r) ==
  LET rs == Rounded(c.p)
      ok == {q \in rs : InRange(q, c.dst)}
  IN IF IsEmpty(r) THEN (IF rs # {} /\ ok = rs THEN {"cast-of-in-range-value-yields-no-result"} ELSE {})
     ELSE IF r.t # c.dst THEN {"result-of-another-type"}
     ELSE IF ok = {} THEN {"cast-of-out-of-range-value-yields-result"}
     ELSE IF r.p \notin ok THEN {"cast-not-rounded-to-nearest"}
     ELSE {}

(* explicit cast to a floating point type: the statement only constrains it through the implicit conversion that  *)
(* a cast tries first; what a Double beyond the binary32 range becomes is not specified                           *)
CastFloatViol(c, r) ==
  IF IsEmpty(r) THEN {}
  ELSE IF r.t # c.dst THEN {"result-of-another-type"}
  ELSE IF ~InRange(c.p, c.dst) THEN {}
  ELSE IF r.p \notin Denotes(c.p, c.dst) THEN {"converted-value-differs"}
  ELSE {}

NumViol(c, r) ==
  CASE c.op = "convert" -> ConvertViol(c, r)
    [] c.op = "cast" /\ c.dst \in IntTypes -> CastIntViol(c, r)
    [] c.op = "cast" /\ c.dst \in FloatTypes -> CastFloatViol(c, r)
    [] OTHER -> {}

-----------------------------------------------------------------------------
(* L1: the specified functions (OPC UA Part 4, conversion table: I = implicit, E = explicit)                      *)
Implicit(s, d) ==
  CASE s = "Boolean" -> d # "Boolean"
    [] s = "SByte" -> d \in {"Int16", "Int32", "Int64", "UInt16", "UInt32", "UInt64", "Float", "Double"}
    [] s = "Byte" -> d \in {"SByte", "Int16", "Int32", "Int64", "UInt16", "UInt32", "UInt64", "Float", "Double"}
    [] s = "Int16" -> d \in {"Int32", "Int64", "UInt32", "UInt64", "Float", "Double"}
    [] s = "UInt16" -> d \in {"Int16", "Int32", "Int64", "UInt32", "UInt64", "Float", "Double"}
    [] s = "Int32" -> d \in {"Int64", "UInt64", "Float", "Double"}
    [] s = "UInt32" -> d \in {"Int32", "Int64", "UInt64", "Float", "Double"}
    [] s = "Int64" -> d \in {"Float", "Double"}
    [] s = "UInt64" -> d \in {"Int64", "Float", "Double"}
    [] s = "Float" -> d = "Double"
    [] s = "Double" -> FALSE

Res(t, p) == [fail |-> "none", t |-> t, p |-> p]
Empty == Res("Empty", "")
First(s) == s[1]
DenotesPick(p, t) ==      \* IEEE round-to-nearest-even: the first entry of the table
  IF p \in Specials \/ t \notin FloatTypes THEN p ELSE IF t = "Float" THEN First(At(p).n32) ELSE First(At(p).n64)

ConvertSpec(c) ==
  IF c.src = c.dst THEN Res(c.dst, c.p)
  ELSE IF Implicit(c.src, c.dst) /\ InRange(c.p, c.dst) THEN Res(c.dst, DenotesPick(c.p, c.dst))
  ELSE Empty

RoundPick(p) ==           \* ties away from zero
  LET a == At(p) IN IF a.k = "tie" THEN (IF Le(p, "0") THEN a.fl ELSE a.ce) ELSE CHOOSE q \in Rounded(p) : TRUE
CastSpec(c) ==
  LET i == ConvertSpec(c) IN
  IF i.t # "Empty" THEN i
  ELSE IF c.dst \in IntTypes THEN
         (IF c.p \in Specials THEN Empty
          ELSE IF InRange(RoundPick(c.p), c.dst) THEN Res(c.dst, RoundPick(c.p)) ELSE Empty)
  ELSE IF c.dst = "Float" /\ c.src = "Double" THEN
         (IF c.p \in Specials THEN Res("Float", c.p)
          ELSE IF InRange(c.p, "Float") THEN Res("Float", DenotesPick(c.p, "Float"))
          ELSE Res("Float", IF Le(c.p, "0") THEN NInf ELSE PInf))
  ELSE Empty
NumSpec(c) == IF c.op = "convert" THEN ConvertSpec(c) ELSE CastSpec(c)

-----------------------------------------------------------------------------
(* the input space: every value of every source type, to every target type, implicit and explicit; zero also in   *)
(* its negative floating point encoding                                                                          *)
Encs(t, p) == IF t \in FloatTypes /\ p = "0" THEN {"std", "negzero"} ELSE {"std"}
\* names the harness needs to name a result: everything the predicate can accept, and the point itself
Cand(p, d) == {p} \cup Denotes(p, d) \cup Rounded(p) \cup (IF d \in FloatTypes THEN {PInf, NInf} ELSE {})
SrcVals(t) == {p \in Values : ValueOf(p, t)}
Dsts(o) == IF o = "cast" THEN NumTypes \ {"Boolean"} ELSE NumTypes
CasesOf(s, o) ==
  UNION {{[op |-> o, src |-> s, p |-> p, enc |-> e, dst |-> d] : e \in Encs(s, p), d \in Dsts(o)} : p \in SrcVals(s)}
TableCase == [op |-> "table", src |-> "", p |-> "", enc |-> "", dst |-> ""]
=============================================================================
