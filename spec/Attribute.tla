------------------------------ MODULE Attribute ------------------------------
(***************************************************************************)
(* L1 specification of the Read and Write services on the Value (and some    *)
(* other) attributes of variables, as carried out by                         *)
(* server/services/attribute.rs, address_space/variable.rs and               *)
(* types/variant.rs (range_of / set_range_of).                               *)
(* A value is [t, a, v]: element type, is-array, elements (numbers; a String  *)
(* is the sequence of its code points, a ByteString the sequence of bytes).  *)
(* t = "Empty": the empty Variant; t = "None": no value at all.              *)
(* A node is a pair kind / access: kinds i32 (Int32 scalar), i32a (Int32[4]), *)
(* str (ASCII String), ustr (String "a e-acute euro b"), bs (ByteString),     *)
(* ba (Byte[4]), none (a node that does not exist); access ro (read only),    *)
(* rw (writable), unw (AccessLevel writable, UserAccessLevel not).            *)
(***************************************************************************)
EXTENDS Integers, Sequences, FiniteSets, SequencesExt, TLC

V(t, a, v) == [t |-> t, a |-> a, v |-> v]
Kinds == {"i32", "i32a", "str", "ustr", "bs", "ba"}
Accs == {"ro", "rw", "unw"}
DT(k) == CASE k \in {"i32", "i32a"} -> "Int32" [] k \in {"str", "ustr"} -> "String" [] k = "bs" -> "ByteString" [] k = "ba" -> "Byte" [] OTHER -> ""
IsArr(k) == k \in {"i32a", "ba"}
Initial(k) == CASE k = "i32" -> V("Int32", FALSE, <<5>>)
                [] k = "i32a" -> V("Int32", TRUE, <<10, 20, 30, 40>>)
                [] k = "str" -> V("String", FALSE, <<97, 98, 99, 100>>)
                [] k = "ustr" -> V("String", FALSE, <<97, 233, 8364, 98>>)
                [] k = "bs" -> V("ByteString", FALSE, <<1, 2, 3, 4>>)
                [] k = "ba" -> V("Byte", TRUE, <<1, 2, 3, 4>>)
                [] OTHER -> V("Unreadable", FALSE, <<>>)

\* index range strings of the input space: [k (none / one / bad = not a range / multi = more than one dimension), lo, hi]
Ranges == {"", "0", "1", "3", "4", "1:2", "0:9", "3:5", "2:1", "1,2", "a"}
RangeSpec(r) == CASE r = "" -> [k |-> "none", lo |-> 0, hi |-> 0]
                  [] r = "0" -> [k |-> "one", lo |-> 0, hi |-> 0]
                  [] r = "1" -> [k |-> "one", lo |-> 1, hi |-> 1]
                  [] r = "3" -> [k |-> "one", lo |-> 3, hi |-> 3]
                  [] r = "4" -> [k |-> "one", lo |-> 4, hi |-> 4]
                  [] r = "1:2" -> [k |-> "one", lo |-> 1, hi |-> 2]
                  [] r = "0:9" -> [k |-> "one", lo |-> 0, hi |-> 9]
                  [] r = "3:5" -> [k |-> "one", lo |-> 3, hi |-> 5]
                  [] r = "1,2" -> [k |-> "multi", lo |-> 0, hi |-> 0]
                  [] OTHER -> [k |-> "bad", lo |-> 0, hi |-> 0]

Attrs == {"Value", "DisplayName", "AccessLevel", "Id0", "Id99"}
AttrKnown(a) == a \in {"Value", "DisplayName", "AccessLevel"}

\* the values a Write offers, by class of value type
Min2(a, b) == IF a < b THEN a ELSE b
Seq4(n, base) == [i \in 1..n |-> base + i]
WLen(r) == LET s == RangeSpec(r) IN IF s.k = "one" THEN Min2(s.hi - s.lo + 1, 4) ELSE 1
VTs(k) == {"same", "wrong", "empty", "null"}
          \cup (IF k \in {"i32", "i32a"} THEN {"conv"} ELSE {})
          \cup (IF k \in {"i32a", "ba"} THEN {"scalar4arr"} ELSE {})
          \cup (IF k = "i32" THEN {"arr4scalar"} ELSE {})
          \cup (IF k = "ba" THEN {"bs4ba"} ELSE {})
          \cup (IF k = "bs" THEN {"ba4bs"} ELSE {})
          \cup (IF k = "none" THEN {} ELSE {})
WVal(k, vt, r) ==
  LET n == IF r = "" THEN (IF k = "ustr" THEN 3 ELSE 4) ELSE WLen(r)
  IN CASE vt = "same" -> (CASE k = "i32" -> V("Int32", FALSE, <<7>>)
                            [] k = "i32a" -> V("Int32", TRUE, Seq4(n, 70))
                            [] k = "str" -> V("String", FALSE, Seq4(n, 118))                               \* "wxyz"
                            [] k = "ustr" -> V("String", FALSE, SubSeq(<<120, 252, 8364, 121>>, 1, n))     \* x u-umlaut euro y
                            [] k = "bs" -> V("ByteString", FALSE, Seq4(n, 200))
                            [] k = "ba" -> V("Byte", TRUE, Seq4(n, 200))
                            [] OTHER -> V("Int32", FALSE, <<7>>))
       [] vt = "conv" -> V("Int16", k = "i32a", IF k = "i32a" THEN Seq4(n, 70) ELSE <<7>>)
       [] vt = "wrong" -> IF k \in {"str", "ustr", "bs"} THEN V("Int32", FALSE, <<7>>) ELSE V("String", FALSE, <<55>>)
       [] vt = "scalar4arr" -> V(DT(k), FALSE, <<7>>)
       [] vt = "arr4scalar" -> V(DT(k), TRUE, <<7, 8>>)
       [] vt = "bs4ba" -> V("ByteString", FALSE, Seq4(n, 200))
       [] vt = "ba4bs" -> V("Byte", TRUE, Seq4(n, 200))
       [] vt = "empty" -> V("Empty", FALSE, <<>>)
       [] OTHER -> V("None", FALSE, <<>>)

-----------------------------------------------------------------------------
CONSTANTS DevByteIndexedStrings   \* UAString::substring slices the UTF-8 bytes: a cut inside a character panics

VARIABLES val,    \* node (kind, access) -> value
          evt
vars == <<val, evt>>
NodeKey(k, acc) == k \o "-" \o acc
AllNodes == {NodeKey(k, acc) : k \in Kinds, acc \in Accs}
Init == val = [x \in AllNodes |-> Initial(CHOOSE k \in Kinds : \E acc \in Accs : x = NodeKey(k, acc))] /\ evt = [ev |-> "Init"]

Cur(k, acc) == IF k = "none" THEN V("Unreadable", FALSE, <<>>) ELSE val[NodeKey(k, acc)]

\* UTF-8 length of a code point, byte offsets of the characters (for the deviation)
U8(c) == IF c < 128 THEN 1 ELSE IF c < 2048 THEN 2 ELSE 3
RECURSIVE Off(_, _)
Off(s, i) == IF i = 0 THEN 0 ELSE Off(s, i - 1) + U8(s[i])         \* byte offset after i characters
ByteLen(s) == Off(s, Len(s))
Boundary(s, b) == \E i \in 0..Len(s) : Off(s, i) = b

\* Variant::range_of
RangeOf(v, r) ==
  LET s == RangeSpec(r)
      n == Len(v.v)
  IN IF s.k = "none" THEN [st |-> "Good", fail |-> FALSE, v |-> v]
     ELSE IF s.k # "one" \/ v.t \in {"Empty", "Unreadable"} THEN [st |-> "Bad", fail |-> FALSE, v |-> V("None", FALSE, <<>>)]
     ELSE IF ~v.a /\ v.t \notin {"String", "ByteString"} THEN [st |-> "Bad", fail |-> FALSE, v |-> V("None", FALSE, <<>>)]
     ELSE IF DevByteIndexedStrings /\ v.t = "String"
     THEN LET bl == ByteLen(v.v)
              hi == Min2(s.hi, bl - 1)
          IN IF s.lo >= bl THEN [st |-> "Bad", fail |-> FALSE, v |-> V("None", FALSE, <<>>)]
             ELSE IF ~(Boundary(v.v, s.lo) /\ Boundary(v.v, hi + 1)) THEN [st |-> "?", fail |-> TRUE, v |-> V("None", FALSE, <<>>)]
             ELSE LET a == CHOOSE i \in 0..n : Off(v.v, i) = s.lo
                      b == CHOOSE i \in 0..n : Off(v.v, i) = hi + 1
                  IN [st |-> "Good", fail |-> FALSE, v |-> V(v.t, v.a, SubSeq(v.v, a + 1, b))]
     ELSE IF s.lo >= n THEN [st |-> "Bad", fail |-> FALSE, v |-> V("None", FALSE, <<>>)]
     ELSE [st |-> "Good", fail |-> FALSE, v |-> V(v.t, v.a, SubSeq(v.v, s.lo + 1, Min2(s.hi + 1, n)))]

ReadRes(k, acc, attr, r) ==
  LET s == RangeSpec(r)
      bad == [st |-> "Bad", fail |-> FALSE, v |-> V("None", FALSE, <<>>)]
  IN IF k = "none" \/ ~AttrKnown(attr) \/ s.k = "bad" THEN bad
     ELSE IF attr # "Value" THEN (IF s.k # "none" THEN bad
                                  ELSE [st |-> "Good", fail |-> FALSE,
                                        v |-> IF attr = "AccessLevel" THEN V("Byte", FALSE, <<IF acc = "ro" THEN 1 ELSE 3>>) ELSE V("Other", FALSE, <<>>)])
     ELSE RangeOf(Cur(k, acc), r)

\* AttributeService::validate_value_to_write
TypeOK(k, w) ==
  \/ w.t = "Empty"
  \/ w.t = DT(k)
  \/ (~w.a /\ w.t = "ByteString" /\ k = "ba")
\* Variant::set_range_of
SetRange(cur, r, w) ==
  LET s == RangeSpec(r)
      n == Len(cur.v)
  IN IF ~(cur.a /\ w.a /\ cur.t = w.t) \/ s.k # "one" THEN [ok |-> FALSE, v |-> cur]
     ELSE IF s.lo >= n \/ w.v = <<>> THEN [ok |-> FALSE, v |-> cur]
     ELSE [ok |-> TRUE, v |-> V(cur.t, TRUE, [i \in 1..n |-> IF i - 1 >= s.lo /\ i - 1 <= s.hi /\ i - s.lo <= Len(w.v) THEN w.v[i - s.lo] ELSE cur.v[i]])]

WriteRes(k, acc, attr, r, w) ==
  LET s == RangeSpec(r)
      cur == Cur(k, acc)
      bad == [st |-> "Bad", v |-> cur]
      w1 == IF k = "ba" /\ w.t = "ByteString" /\ ~w.a THEN V("Byte", TRUE, w.v) ELSE w     \* Variable::set_value
  IN IF k = "none" \/ ~AttrKnown(attr) THEN bad
     ELSE IF attr # "Value" \/ acc # "rw" THEN bad            \* no write mask bit is set; the user access level decides for Value
     ELSE IF s.k = "bad" THEN bad
     ELSE IF w.t = "None" \/ ~TypeOK(k, w) THEN bad
     ELSE IF s.k = "none" THEN [st |-> "Good", v |-> w1]
     ELSE LET x == SetRange(cur, r, w1) IN IF x.ok THEN [st |-> "Good", v |-> x.v] ELSE bad

Rec(ev, k, acc, attr, r) == [ev |-> ev, k |-> k, acc |-> acc, attr |-> attr, range |-> r, vt |-> "", w |-> V("None", FALSE, <<>>),
                             fail |-> "none", site |-> "", status |-> "", cls |-> "", value |-> V("None", FALSE, <<>>),
                             before |-> Cur(k, acc), after |-> Cur(k, acc)]

Write(k, acc, attr, r, vt) ==
  LET w == WVal(k, vt, r)
      x == WriteRes(k, acc, attr, r, w)
  IN /\ val' = IF k = "none" THEN val ELSE [val EXCEPT ![NodeKey(k, acc)] = x.v]
     /\ evt' = [Rec("Write", k, acc, attr, r) EXCEPT !.vt = vt, !.w = w, !.cls = x.st, !.status = x.st, !.after = x.v]

Read(k, acc, attr, r) ==
  LET x == ReadRes(k, acc, attr, r)
  IN /\ UNCHANGED val
     /\ evt' = [Rec("Read", k, acc, attr, r) EXCEPT !.cls = x.st, !.status = x.st, !.value = x.v, !.fail = IF x.fail THEN "panic" ELSE "none",
                                                 !.site = IF x.fail THEN "types/string.rs:_byte_index_is_not_a_char_boundary" ELSE ""]
=============================================================================
