------------------------------ MODULE Attribute ------------------------------
(***************************************************************************)
(* L1 specification of the Read and Write services on the Value (and some    *)
(* other) attributes of variables, as carried out by                         *)
(* server/services/attribute.rs, address_space/variable.rs and               *)
(* types/variant.rs (range_of / set_range_of).                               *)
(* A value is [t, a, v]: element type, is-array, elements (numbers; a String  *)
(* is the sequence of its code points, a ByteString the sequence of bytes).  *)
(* t = "Empty": the empty Variant; t = "None": no value at all.              *)
(* A node is a pair kind / access: kinds i32 (Int32 scalar), i32a (Int32[4]), *)
(* str (ASCII String), ustr (String "a e-acute euro b"), bs (ByteString),     *)
(* ba (Byte[4]), none (a node that does not exist); access ro (read only),    *)
(* rw (writable), unw (AccessLevel writable, UserAccessLevel not).            *)
(***************************************************************************)
EXTENDS Integers, Sequences, FiniteSets, SequencesExt, TLC

V(t, a, v) == [t |-> t, a |-> a, v |-> v]
Kinds == {"i32", "i32a", "str", "ustr", "bs", "ba"}
Accs == {"ro", "rw", "unw"}
DT(k) == CASE k \in {"i32", "i32a"} -> "Int32" [] k \in {"str", "ustr"} -> "String" [] k = "bs" -> "ByteString" [] k = "ba" -> "Byte" [] OTHER -> ""
IsArr(k) == k \in {"i32a", "ba"}
Initial(k) == CASE k = "i32" -> V("Int32", FALSE, <<5>>)
                [] k = "i32a" -> V("Int32", TRUE, <<10, 20, 30, 40>>)
                [] k = "str" -> V("String", FALSE, <<97, 98, 99, 100>>)
                [] k = "ustr" -> V("String", FALSE, <<97, 233, 8364, 98>>)
                [] k = "bs" -> V("ByteString", FALSE, <<1, 2, 3, 4>>)
                [] k = "ba" -> V("Byte", TRUE, <<1, 2, 3, 4>>)
                [] OTHER -> V("Unreadable", FALSE, <<>>)

\* An index range of the input space is [k, lo, hi, s]: s = the string sent; k = "none" (no range), "one" (index lo = hi, or lo:hi),
\* "multi" (more than one dimension), "bad" (not a range at all).
One(lo, hi) == [k |-> "one", lo |-> lo, hi |-> hi, s |-> IF lo = hi THEN ToString(lo) ELSE ToString(lo) \o ":" \o ToString(hi)]
Odd(s) == [k |-> IF s = "" THEN "none" ELSE IF s = "1,2" THEN "multi" ELSE "bad", lo |-> 0, hi |-> 0, s |-> s]
\* ranges chosen relative to the length n of the value they are applied to
RelPair(name, n) == CASE name = "last" -> <<n - 1, n - 1>>           \* the last element
                      [] name = "lastover" -> <<n - 1, n>>          \* starts at the last element, ends beyond
                      [] name = "past" -> <<n, n + 1>>              \* starts at the first index past the end
                      [] name = "pastidx" -> <<n, n>>
                      [] name = "beyond" -> <<n + 1, n + 2>>
                      [] name = "whole" -> <<0, n - 1>>
                      [] name = "wholeover" -> <<0, n>>
                      [] OTHER -> <<0, n + 5>>                      \* "overhang"
Rel(names, n) == {One(p[1], p[2]) : p \in {q \in {RelPair(x, n) : x \in names} : q[1] >= 0 /\ q[1] <= q[2]}}

Attrs == {"Value", "DisplayName", "AccessLevel", "Id0", "Id99"}
AttrKnown(a) == a \in {"Value", "DisplayName", "AccessLevel"}

\* the values a Write offers, by class of value type
Min2(a, b) == IF a < b THEN a ELSE b
Seq4(n, base) == [i \in 1..n |-> base + i]
WLen(r) == IF r.k = "one" THEN Min2(r.hi - r.lo + 1, 4) ELSE 1
VTs(k) == {"same", "wrong", "empty", "null"}
          \cup (IF k \in {"i32", "i32a"} THEN {"conv"} ELSE {})
          \cup (IF k \in {"i32a", "ba"} THEN {"scalar4arr"} ELSE {})
          \cup (IF k = "i32" THEN {"arr4scalar"} ELSE {})
          \cup (IF k = "ba" THEN {"bs4ba"} ELSE {})
          \cup (IF k = "bs" THEN {"ba4bs"} ELSE {})
          \cup (IF k = "none" THEN {} ELSE {})
WVal(k, vt, r) ==
  LET n == IF r.k = "none" THEN (IF k = "ustr" THEN 3 ELSE 4) ELSE WLen(r)
  IN CASE vt = "same" -> (CASE k = "i32" -> V("Int32", FALSE, <<7>>)
                            [] k = "i32a" -> V("Int32", TRUE, Seq4(n, 70))
                            [] k = "str" -> V("String", FALSE, Seq4(n, 118))                               \* "wxyz"
                            [] k = "ustr" -> V("String", FALSE, SubSeq(<<120, 252, 8364, 121>>, 1, n))     \* x u-umlaut euro y
                            [] k = "bs" -> V("ByteString", FALSE, Seq4(n, 200))
                            [] k = "ba" -> V("Byte", TRUE, Seq4(n, 200))
                            [] OTHER -> V("Int32", FALSE, <<7>>))
       [] vt = "conv" -> V("Int16", k = "i32a", IF k = "i32a" THEN Seq4(n, 70) ELSE <<7>>)
       [] vt = "wrong" -> IF k \in {"str", "ustr", "bs"} THEN V("Int32", FALSE, <<7>>) ELSE V("String", FALSE, <<55>>)
       [] vt = "scalar4arr" -> V(DT(k), FALSE, <<7>>)
       [] vt = "arr4scalar" -> V(DT(k), TRUE, <<7, 8>>)
       [] vt = "bs4ba" -> V("ByteString", FALSE, Seq4(n, 200))
       [] vt = "ba4bs" -> V("Byte", TRUE, Seq4(n, 200))
       [] vt = "empty" -> V("Empty", FALSE, <<>>)
       [] OTHER -> V("None", FALSE, <<>>)

-----------------------------------------------------------------------------
CONSTANTS DevByteIndexedStrings,  \* UAString::substring slices the UTF-8 bytes: a cut inside a character panics
          DevPastEndAccepted      \* set_range_of accepts lo:hi with lo = length of the array: Good, nothing stored (not in the pinned tree)

VARIABLES val,    \* node (kind, access) -> value
          evt
vars == <<val, evt>>
NodeKey(k, acc) == k \o "-" \o acc
AllNodes == {NodeKey(k, acc) : k \in Kinds, acc \in Accs}
Init == val = [x \in AllNodes |-> Initial(CHOOSE k \in Kinds : \E acc \in Accs : x = NodeKey(k, acc))] /\ evt = [ev |-> "Init"]

Cur(k, acc) == IF k = "none" THEN V("Unreadable", FALSE, <<>>) ELSE val[NodeKey(k, acc)]

\* UTF-8 length of a code point, byte offsets of the characters (for the deviation)
U8(c) == IF c < 128 THEN 1 ELSE IF c < 2048 THEN 2 ELSE 3
RECURSIVE Off(_, _)
Off(s, i) == IF i = 0 THEN 0 ELSE Off(s, i - 1) + U8(s[i])         \* byte offset after i characters
ByteLen(s) == Off(s, Len(s))
Boundary(s, b) == \E i \in 0..Len(s) : Off(s, i) = b

\* Variant::range_of
RangeOf(v, r) ==
  LET s == r
      n == Len(v.v)
  IN IF s.k = "none" THEN [st |-> "Good", fail |-> FALSE, v |-> v]
     ELSE IF s.k # "one" \/ v.t \in {"Empty", "Unreadable"} THEN [st |-> "Bad", fail |-> FALSE, v |-> V("None", FALSE, <<>>)]
     ELSE IF ~v.a /\ v.t \notin {"String", "ByteString"} THEN [st |-> "Bad", fail |-> FALSE, v |-> V("None", FALSE, <<>>)]
     ELSE IF DevByteIndexedStrings /\ v.t = "String"
     THEN LET bl == ByteLen(v.v)
              hi == Min2(s.hi, bl - 1)
          IN IF s.lo >= bl THEN [st |-> "Bad", fail |-> FALSE, v |-> V("None", FALSE, <<>>)]
             ELSE IF ~(Boundary(v.v, s.lo) /\ Boundary(v.v, hi + 1)) THEN [st |-> "?", fail |-> TRUE, v |-> V("None", FALSE, <<>>)]
             ELSE LET a == CHOOSE i \in 0..n : Off(v.v, i) = s.lo
                      b == CHOOSE i \in 0..n : Off(v.v, i) = hi + 1
                  IN [st |-> "Good", fail |-> FALSE, v |-> V(v.t, v.a, SubSeq(v.v, a + 1, b))]
     ELSE IF s.lo >= n THEN [st |-> "Bad", fail |-> FALSE, v |-> V("None", FALSE, <<>>)]
     ELSE [st |-> "Good", fail |-> FALSE, v |-> V(v.t, v.a, SubSeq(v.v, s.lo + 1, Min2(s.hi + 1, n)))]

ReadRes(k, acc, attr, r) ==
  LET s == r
      bad == [st |-> "Bad", fail |-> FALSE, v |-> V("None", FALSE, <<>>)]
  IN IF k = "none" \/ ~AttrKnown(attr) \/ s.k = "bad" THEN bad
     ELSE IF attr # "Value" THEN (IF s.k # "none" THEN bad
                                  ELSE [st |-> "Good", fail |-> FALSE,
                                        v |-> IF attr = "AccessLevel" THEN V("Byte", FALSE, <<IF acc = "ro" THEN 1 ELSE 3>>) ELSE V("Other", FALSE, <<>>)])
     ELSE RangeOf(Cur(k, acc), r)

\* AttributeService::validate_value_to_write
TypeOK(k, w) ==
  \/ w.t = "Empty"
  \/ w.t = DT(k)
  \/ (~w.a /\ w.t = "ByteString" /\ k = "ba")
\* Variant::set_range_of
SetRange(cur, r, w) ==
  LET s == r
      n == Len(cur.v)
  IN IF ~(cur.a /\ w.a /\ cur.t = w.t) \/ s.k # "one" THEN [ok |-> FALSE, v |-> cur]
     ELSE IF (IF DevPastEndAccepted /\ s.lo < s.hi THEN s.lo > n ELSE s.lo >= n) \/ w.v = <<>> THEN [ok |-> FALSE, v |-> cur]
     ELSE [ok |-> TRUE, v |-> V(cur.t, TRUE, [i \in 1..n |-> IF i - 1 >= s.lo /\ i - 1 <= s.hi /\ i - s.lo <= Len(w.v) THEN w.v[i - s.lo] ELSE cur.v[i]])]

WriteRes(k, acc, attr, r, w) ==
  LET s == r
      cur == Cur(k, acc)
      bad == [st |-> "Bad", v |-> cur]
      w1 == IF k = "ba" /\ w.t = "ByteString" /\ ~w.a THEN V("Byte", TRUE, w.v) ELSE w     \* Variable::set_value
  IN IF k = "none" \/ ~AttrKnown(attr) THEN bad
     ELSE IF attr # "Value" \/ acc # "rw" THEN bad            \* no write mask bit is set; the user access level decides for Value
     ELSE IF s.k = "bad" THEN bad
     ELSE IF w.t = "None" \/ ~TypeOK(k, w) THEN bad
     ELSE IF s.k = "none" THEN [st |-> "Good", v |-> w1]
     ELSE LET x == SetRange(cur, r, w1) IN IF x.ok THEN [st |-> "Good", v |-> x.v] ELSE bad

Rec(ev, k, acc, attr, r) == [ev |-> ev, k |-> k, acc |-> acc, attr |-> attr, range |-> r.s, rk |-> r.k, lo |-> r.lo, hi |-> r.hi, vt |-> "", w |-> V("None", FALSE, <<>>),
                             fail |-> "none", site |-> "", status |-> "", cls |-> "", value |-> V("None", FALSE, <<>>),
                             before |-> Cur(k, acc), after |-> Cur(k, acc),
                             rcls |-> "", rvalue |-> V("None", FALSE, <<>>)]     \* Write of Value with a range: a Read of the same range right after

Write(k, acc, attr, r, vt) ==
  LET w == WVal(k, vt, r)
      x == WriteRes(k, acc, attr, r, w)
      follow == attr = "Value" /\ r.k # "none"
      rr == IF k = "none" \/ r.k = "bad" THEN [st |-> "Bad", fail |-> FALSE, v |-> V("None", FALSE, <<>>)] ELSE RangeOf(x.v, r)
  IN /\ val' = IF k = "none" THEN val ELSE [val EXCEPT ![NodeKey(k, acc)] = x.v]
     /\ evt' = [Rec("Write", k, acc, attr, r) EXCEPT !.vt = vt, !.w = w, !.cls = x.st, !.status = x.st, !.after = x.v,
                                                  !.rcls = IF follow THEN rr.st ELSE "", !.rvalue = IF follow THEN rr.v ELSE V("None", FALSE, <<>>)]

Read(k, acc, attr, r) ==
  LET x == ReadRes(k, acc, attr, r)
  IN /\ UNCHANGED val
     /\ evt' = [Rec("Read", k, acc, attr, r) EXCEPT !.cls = x.st, !.status = x.st, !.value = x.v, !.fail = IF x.fail THEN "panic" ELSE "none",
                                                 !.site = IF x.fail THEN "types/string.rs:_byte_index_is_not_a_char_boundary" ELSE ""]
=============================================================================
