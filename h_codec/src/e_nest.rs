//! Engine `nest` (C02): nesting paths / repeated grammar cycles / mask sweeps decoded from byte recipes,
//! and batches of seeded mutations of valid encodings (the random driver; reported separately).
use crate::dec::*;
use crate::util::*;
use crate::val::*;
use crate::Obs;
use serde_json::{json, Value};

struct Rng(u64);
impl Rng {
    fn next(&mut self) -> u64 {
        self.0 = self.0.wrapping_add(0x9E3779B97F4A7C15);
        let mut z = self.0;
        z = (z ^ (z >> 30)).wrapping_mul(0xBF58476D1CE4E5B9);
        z = (z ^ (z >> 27)).wrapping_mul(0x94D049BB133111EB);
        z ^ (z >> 31)
    }
    fn below(&mut self, n: usize) -> usize {
        if n == 0 {
            0
        } else {
            (self.next() % n as u64) as usize
        }
    }
}

fn mutate(base: &[u8], words: &[i64], rng: &mut Rng) -> (Vec<u8>, &'static str) {
    let mut b = base.to_vec();
    if b.is_empty() {
        return (b, "none");
    }
    let subst = |b: &mut Vec<u8>, rng: &mut Rng| {
        let w = words[rng.below(words.len())] as i32;
        let at = rng.below(b.len());
        for (i, x) in w.to_le_bytes().iter().enumerate() {
            if at + i < b.len() {
                b[at + i] = *x;
            }
        }
    };
    match rng.below(5) {
        0 => {
            for _ in 0..1 + rng.below(3) {
                let at = rng.below(b.len());
                b[at] ^= 1 << rng.below(8);
            }
            (b, "bitflip")
        }
        1 => {
            subst(&mut b, rng);
            (b, "length-word")
        }
        2 => {
            let n = rng.below(b.len());
            b.truncate(n);
            (b, "truncate")
        }
        3 => {
            subst(&mut b, rng);
            let n = 1 + rng.below(b.len());
            b.truncate(n);
            (b, "length-word+truncate")
        }
        _ => {
            let at = rng.below(b.len());
            b[at] = rng.next() as u8;
            (b, "byte")
        }
    }
}

pub fn run_case(case: &Value, out: &mut Obs) {
    let cid = case.get("case").cloned().unwrap_or(Value::Null);
    let c = &case["c"];
    let o = options(&c["opts"]);
    let root = gets(c, "root").to_string();
    if gets(c, "kind") == "mut" {
        let base = bytes_of(&c["base"]);
        let words: Vec<i64> = c["words"].as_array().map(|a| a.iter().map(|x| x.as_i64().unwrap_or(0)).collect()).unwrap_or_default();
        let seed: u64 = std::env::var("VERIF_SEED").ok().and_then(|s| s.parse().ok()).unwrap_or(1);
        let mut rng = Rng(seed.wrapping_mul(1_000_003) ^ (geti(c, "seed") as u64).wrapping_mul(0x2545F4914F6CDD1D));
        let n = geti(c, "count") as usize;
        let (mut nok, mut nerr, mut npanic, mut peak) = (0, 0, 0, 0usize);
        let mut site = String::new();
        let mut bad = json!([]);
        let mut ops = std::collections::BTreeMap::new();
        for _ in 0..n {
            let (m, op) = mutate(&base, &words, &mut rng);
            *ops.entry(op).or_insert(0) += 1;
            // what is being decoded is on stdout before the decoder runs: an abort leaves it for the replay
            let r = decode_measured(&root, m.clone(), &o);
            peak = peak.max(r.peak);
            match r.out.as_str() {
                "ok" | "more" => nok += 1,
                "err" => nerr += 1,
                _ => {
                    npanic += 1;
                    if site.is_empty() {
                        site = r.site.clone();
                        bad = jbytes(&m);
                    }
                }
            }
        }
        out.push(json!({"case": cid, "i": 1, "c": {"kind": "mut", "root": root, "name": c["name"], "opts": options_json(&o), "reent": 0, "must": false},
            "r": {"out": if npanic > 0 { "panic" } else { "ok" }, "site": site, "status": "", "used": 0, "peak": peak, "M": base.len(),
                  "elem": elem_bytes(), "nok": nok, "nerr": nerr, "npanic": npanic, "bad": bad, "ops": ops}}));
        return;
    }
    let bytes = expand(&c["segs"]);
    let r = decode_measured(&root, bytes, &o);
    let mut j = r.json();
    j["elem"] = json!(elem_bytes());
    // the case without its byte recipe (the judge needs name / reent / must / opts only)
    out.push(json!({"case": cid, "i": 1,
        "c": {"kind": c["kind"], "root": root, "name": c["name"], "opts": options_json(&o), "reent": c["reent"], "must": c["must"]},
        "r": j}));
}
