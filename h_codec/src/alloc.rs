//! Counting global allocator: current and peak number of live heap bytes of the process.
use std::alloc::{GlobalAlloc, Layout, System};
use std::sync::atomic::{AtomicUsize, Ordering};

pub struct Counting;

static CUR: AtomicUsize = AtomicUsize::new(0);
static PEAK: AtomicUsize = AtomicUsize::new(0);

fn add(n: usize) {
    let c = CUR.fetch_add(n, Ordering::Relaxed) + n;
    PEAK.fetch_max(c, Ordering::Relaxed);
}

unsafe impl GlobalAlloc for Counting {
    unsafe fn alloc(&self, l: Layout) -> *mut u8 {
        let p = System.alloc(l);
        if !p.is_null() {
            add(l.size());
        }
        p
    }
    unsafe fn alloc_zeroed(&self, l: Layout) -> *mut u8 {
        let p = System.alloc_zeroed(l);
        if !p.is_null() {
            add(l.size());
        }
        p
    }
    unsafe fn dealloc(&self, p: *mut u8, l: Layout) {
        System.dealloc(p, l);
        CUR.fetch_sub(l.size(), Ordering::Relaxed);
    }
    unsafe fn realloc(&self, p: *mut u8, l: Layout, new: usize) -> *mut u8 {
        let q = System.realloc(p, l, new);
        if !q.is_null() {
            if new >= l.size() {
                add(new - l.size());
            } else {
                CUR.fetch_sub(l.size() - new, Ordering::Relaxed);
            }
        }
        q
    }
}

/// Start a measurement: the peak is reset to the current level, which is returned.
pub fn start() -> usize {
    let c = CUR.load(Ordering::Relaxed);
    PEAK.store(c, Ordering::Relaxed);
    c
}

/// Peak number of bytes allocated above the level returned by `start`.
pub fn peak_since(base: usize) -> usize {
    PEAK.load(Ordering::Relaxed).saturating_sub(base)
}
