//! Engine `rt` (C01): build the real value, byte_len / encode between two sentinels / decode / re-abstract,
//! then the same once more for the decoded value.
use crate::util::*;
use crate::val::*;
use crate::Obs;
use opcua::types::*;
use serde_json::{json, Map, Value};
use std::io::{Cursor, Read, Write};

const SENT: [u8; 3] = [165, 90, 195];

struct Trip {
    st: &'static str,
    blen: usize,
    wrote: usize,
    bytes: Vec<u8>,
    used: usize,
    sent: bool,
    dec: Option<Any>,
}

fn trip(ty: &str, v: &Any, o: &DecodingOptions) -> Trip {
    let mut t = Trip { st: "ok", blen: v.byte_len(), wrote: 0, bytes: vec![], used: 0, sent: false, dec: None };
    let mut s = Cursor::new(Vec::new());
    let _ = s.write(&SENT);
    match v.encode(&mut s) {
        Ok(n) => t.wrote = n,
        Err(_) => {
            t.st = "enc-err";
            return t;
        }
    }
    let _ = s.write(&SENT);
    let all = s.into_inner();
    t.bytes = all[3..all.len() - 3].to_vec();
    let mut s = Cursor::new(all);
    let mut a = [0u8; 3];
    let first = s.read_exact(&mut a).is_ok() && a == SENT;
    let p0 = s.position();
    match Any::decode(ty, &mut s, o) {
        Ok(d) => {
            t.used = (s.position() - p0) as usize;
            let mut b = [0u8; 3];
            let last = s.read_exact(&mut b).is_ok() && b == SENT && s.position() as usize == s.get_ref().len();
            t.sent = first && last;
            t.dec = Some(d);
        }
        Err(_) => t.st = "dec-err",
    }
    t
}

pub fn run_case(case: &Value, out: &mut Obs) {
    let cid = case.get("case").cloned().unwrap_or(Value::Null);
    let c = &case["c"];
    let ty = gets(c, "ty").to_string();
    let o = DecodingOptions::default();
    let mut r = Map::new();
    let res = guard(|| {
        let v = Any::from_json(&ty, &c["w"]);
        let a = trip(&ty, &v, &o);
        let b = a.dec.as_ref().map(|d| trip(&ty, d, &o));
        (a, b)
    });
    match res {
        Err(site) => {
            r.insert("fail".into(), json!("panic"));
            r.insert("site".into(), json!(site_sig(&site)));
        }
        Ok((a, b)) => {
            r.insert("fail".into(), json!("none"));
            r.insert("site".into(), json!(""));
            r.insert("st".into(), json!(a.st));
            r.insert("blen".into(), json!(a.blen));
            r.insert("wrote".into(), json!(a.wrote));
            r.insert("bytes".into(), jbytes(&a.bytes));
            r.insert("used".into(), json!(a.used));
            r.insert("sent".into(), json!(a.sent));
            r.insert("dec".into(), a.dec.as_ref().map(|d| d.to_json()).unwrap_or(json!({"t": "Empty"})));
            match b {
                Some(b) => {
                    r.insert("st2".into(), json!(b.st));
                    r.insert("blen2".into(), json!(b.blen));
                    r.insert("n2".into(), json!(b.bytes.len()));
                    r.insert("used2".into(), json!(b.used));
                    r.insert("sent2".into(), json!(b.sent));
                    r.insert("same2".into(), json!(b.bytes == a.bytes));
                    r.insert("dec2".into(), b.dec.as_ref().map(|d| d.to_json()).unwrap_or(json!({"t": "Empty"})));
                }
                None => {
                    r.insert("st2".into(), json!("none"));
                    r.insert("blen2".into(), json!(0));
                    r.insert("n2".into(), json!(0));
                    r.insert("used2".into(), json!(0));
                    r.insert("sent2".into(), json!(false));
                    r.insert("same2".into(), json!(false));
                    r.insert("dec2".into(), json!({"t": "Empty"}));
                }
            }
        }
    }
    out.push(json!({"case": cid, "i": 1, "c": c, "r": Value::Object(r)}));
}
