//! Decode bytes with the real decoders on a thread with the stack of a tokio worker, counting what is read and allocated.
use crate::alloc;
use crate::util::*;
use crate::val::*;
use opcua::types::*;
use serde_json::{json, Value};
use std::io::{Cursor, Read};

/// stack of the decoding thread: tokio's default worker stack (2 MiB)
pub const STACK: usize = 2 * 1024 * 1024;

pub struct CountingReader {
    inner: Cursor<Vec<u8>>,
    pub delivered: usize,
}
impl Read for CountingReader {
    fn read(&mut self, buf: &mut [u8]) -> std::io::Result<usize> {
        let n = self.inner.read(buf)?;
        self.delivered += n;
        Ok(n)
    }
}

#[derive(Debug, Clone)]
pub struct Outcome {
    pub out: String, // ok | err | more | panic
    pub site: String,
    pub status: String,
    pub used: usize,
    pub peak: usize,
    pub len: usize,
}
impl Outcome {
    pub fn json(&self) -> Value {
        json!({"out": self.out, "site": self.site, "status": self.status, "used": self.used, "peak": self.peak, "M": self.len})
    }
}

fn decode_here(ty: &str, bytes: Vec<u8>, o: &DecodingOptions) -> Outcome {
    let len = bytes.len();
    let mut res = Outcome { out: "ok".into(), site: "".into(), status: "".into(), used: 0, peak: 0, len };
    if ty == "Codec" {
        // the framing layer of the transport: tokio codec over a byte buffer
        use bytes::BytesMut;
        use opcua::core::comms::tcp_codec::TcpCodec;
        use tokio_util::codec::Decoder;
        let mut buf = BytesMut::from(&bytes[..]);
        drop(bytes);
        let mut codec = TcpCodec::new(o.clone());
        let base = alloc::start();
        let r = guard(|| codec.decode(&mut buf));
        res.peak = alloc::peak_since(base);
        res.used = len - buf.len();
        match r {
            Ok(Ok(Some(_))) => {}
            Ok(Ok(None)) => res.out = "more".into(),
            Ok(Err(e)) => {
                res.out = "err".into();
                res.status = format!("{:?}", e.kind());
            }
            Err(site) => {
                res.out = "panic".into();
                res.site = site_sig(&site);
            }
        }
        return res;
    }
    let mut rd = CountingReader { inner: Cursor::new(bytes), delivered: 0 };
    let base = alloc::start();
    let r = guard(|| Any::decode(ty, &mut rd, o).map(|_| ()));
    res.peak = alloc::peak_since(base);
    res.used = rd.delivered;
    match r {
        Ok(Ok(())) => {}
        Ok(Err(e)) => {
            res.out = "err".into();
            res.status = e.name().to_string();
        }
        Err(site) => {
            res.out = "panic".into();
            res.site = site_sig(&site);
        }
    }
    res
}

/// Decode on a fresh thread with a 2 MiB stack (a stack overflow kills the process: run under `conform child`).
pub fn decode_measured(ty: &str, bytes: Vec<u8>, o: &DecodingOptions) -> Outcome {
    let ty = ty.to_string();
    let o = o.clone();
    let h = std::thread::Builder::new().stack_size(STACK).spawn(move || decode_here(&ty, bytes, &o)).expect("thread");
    match h.join() {
        Ok(r) => r,
        Err(_) => Outcome { out: "panic".into(), site: "thread".into(), status: "".into(), used: 0, peak: 0, len: 0 },
    }
}
