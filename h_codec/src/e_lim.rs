//! Engine `lim` (C03): a length word at a nesting position, decoded under the given limits.
use crate::dec::*;
use crate::util::*;
use crate::val::*;
use crate::Obs;
use serde_json::{json, Value};

pub fn run_case(case: &Value, out: &mut Obs) {
    let cid = case.get("case").cloned().unwrap_or(Value::Null);
    let c = &case["c"];
    let o = options(&c["opts"]);
    let root = gets(c, "root").to_string();
    let bytes = expand(&c["segs"]);
    let r = decode_measured(&root, bytes, &o);
    let mut j = r.json();
    j["hdr"] = c["hdr"].clone();
    let mut cc = c.clone();
    if let Some(m) = cc.as_object_mut() {
        m.remove("segs");
    }
    out.push(json!({"case": cid, "i": 1, "c": cc, "r": j}));
}
