//! Abstract values of spec/Codec.tla (JSON) <-> real opcua values, and a type-erased value `Any`
//! that can be encoded / decoded by its type tag.
use opcua::types::*;
use serde_json::{json, Value};
use std::io::{Cursor, Read, Write};
use std::sync::Arc;

pub const DT_MID: i64 = 0x0102030405060708;

pub fn bytes_of(v: &Value) -> Vec<u8> {
    v.as_array().map(|a| a.iter().map(|x| x.as_u64().unwrap_or(0) as u8).collect()).unwrap_or_default()
}
pub fn jbytes(b: &[u8]) -> Value {
    Value::Array(b.iter().map(|x| json!(*x)).collect())
}
fn gi(v: &Value, k: &str) -> i64 {
    v.get(k).and_then(|x| x.as_i64()).unwrap_or(0)
}
fn gb(v: &Value, k: &str) -> bool {
    v.get(k).and_then(|x| x.as_bool()).unwrap_or(false)
}
fn gs<'a>(v: &'a Value, k: &str) -> &'a str {
    v.get(k).and_then(|x| x.as_str()).unwrap_or("")
}

// ---- strings
pub fn to_str(v: &Value) -> UAString {
    if gb(v, "nl") {
        UAString::null()
    } else {
        UAString::from(String::from_utf8_lossy(&bytes_of(&v["b"])).to_string())
    }
}
pub fn from_str(s: &UAString) -> Value {
    match s.value() {
        None => json!({"nl": true, "b": []}),
        Some(x) => json!({"nl": false, "b": jbytes(x.as_bytes())}),
    }
}
pub fn to_bs(v: &Value) -> ByteString {
    if gb(v, "nl") {
        ByteString::null()
    } else {
        ByteString { value: Some(bytes_of(&v["b"])) }
    }
}
pub fn from_bs(s: &ByteString) -> Value {
    match &s.value {
        None => json!({"nl": true, "b": []}),
        Some(x) => json!({"nl": false, "b": jbytes(x)}),
    }
}

// ---- date time points
pub fn to_dt(name: &str) -> DateTime {
    use chrono::TimeZone;
    match name {
        "mid" => DateTime::from(DT_MID),
        "midsub" => DateTime::from(DateTime::from(DT_MID).as_chrono() + chrono::Duration::nanoseconds(50)),
        "pre" => DateTime::from(chrono::Utc.with_ymd_and_hms(1500, 6, 1, 0, 0, 0).unwrap()),
        "post" => DateTime::from(chrono::Utc.with_ymd_and_hms(10000, 1, 1, 0, 0, 0).unwrap()),
        "end" => DateTime::endtimes(),
        _ => DateTime::epoch(),
    }
}
pub fn from_dt(d: &DateTime) -> &'static str {
    let t = d.ticks();
    if t == 0 {
        "epoch"
    } else if t == DT_MID {
        "mid"
    } else if t == DateTime::endtimes_ticks() {
        "end"
    } else {
        "other"
    }
}

// ---- node ids
pub fn to_nid(v: &Value) -> NodeId {
    let ns = gi(v, "ns") as u16;
    let identifier = match gs(v, "k") {
        "str" => Identifier::String(to_str(&v["s"])),
        "guid" => {
            let b = bytes_of(&v["g"]);
            let mut a = [0u8; 16];
            for (i, x) in b.iter().take(16).enumerate() {
                a[i] = *x;
            }
            Identifier::Guid(Guid::from_bytes(a))
        }
        "opq" => Identifier::ByteString(to_bs(&v["s"])),
        _ => Identifier::Numeric(gi(v, "n") as u32),
    };
    NodeId { namespace: ns, identifier }
}
pub fn from_nid(n: &NodeId) -> Value {
    let nulls = json!({"nl": true, "b": []});
    match &n.identifier {
        Identifier::Numeric(x) => json!({"k": "num", "ns": n.namespace, "n": *x as i64, "s": nulls, "g": []}),
        Identifier::String(s) => json!({"k": "str", "ns": n.namespace, "n": 0, "s": from_str(s), "g": []}),
        Identifier::Guid(g) => json!({"k": "guid", "ns": n.namespace, "n": 0, "s": nulls, "g": jbytes(g.as_bytes())}),
        Identifier::ByteString(s) => json!({"k": "opq", "ns": n.namespace, "n": 0, "s": from_bs(s), "g": []}),
    }
}
pub fn to_xnid(v: &Value) -> ExpandedNodeId {
    ExpandedNodeId { node_id: to_nid(&v["id"]), namespace_uri: to_str(&v["uri"]), server_index: gi(v, "srv") as u32 }
}
pub fn from_xnid(x: &ExpandedNodeId) -> Value {
    json!({"id": from_nid(&x.node_id), "uri": from_str(&x.namespace_uri), "srv": x.server_index as i64})
}
pub fn to_qn(v: &Value) -> QualifiedName {
    QualifiedName { namespace_index: gi(v, "ns") as u16, name: to_str(&v["name"]) }
}
pub fn from_qn(q: &QualifiedName) -> Value {
    json!({"ns": q.namespace_index, "name": from_str(&q.name)})
}
pub fn to_lt(v: &Value) -> LocalizedText {
    LocalizedText { locale: to_str(&v["loc"]), text: to_str(&v["text"]) }
}
pub fn from_lt(l: &LocalizedText) -> Value {
    json!({"loc": from_str(&l.locale), "text": from_str(&l.text)})
}
pub fn to_eo(v: &Value) -> ExtensionObject {
    let body = match gs(v, "enc") {
        "bytes" => ExtensionObjectEncoding::ByteString(to_bs(&v["body"])),
        "xml" => ExtensionObjectEncoding::XmlElement(to_str(&v["body"])),
        _ => ExtensionObjectEncoding::None,
    };
    ExtensionObject { node_id: to_nid(&v["id"]), body }
}
pub fn from_eo(e: &ExtensionObject) -> Value {
    let (enc, body) = match &e.body {
        ExtensionObjectEncoding::None => ("none", json!({"nl": true, "b": []})),
        ExtensionObjectEncoding::ByteString(b) => ("bytes", from_bs(b)),
        ExtensionObjectEncoding::XmlElement(s) => ("xml", from_str(s)),
    };
    json!({"id": from_nid(&e.node_id), "enc": enc, "body": body})
}

// ---- diagnostic info: chain of links
fn opt_i(v: &Value) -> Option<i32> {
    if gb(v, "some") {
        Some(gi(v, "x") as i32)
    } else {
        None
    }
}
fn from_opt_i(o: &Option<i32>) -> Value {
    match o {
        Some(x) => json!({"some": true, "x": *x}),
        None => json!({"some": false, "x": 0}),
    }
}
pub fn to_di(chain: &Value) -> DiagnosticInfo {
    let links = chain.as_array().cloned().unwrap_or_default();
    let mut cur: Option<Box<DiagnosticInfo>> = None;
    for l in links.iter().rev() {
        let d = DiagnosticInfo {
            symbolic_id: opt_i(&l["sym"]),
            namespace_uri: opt_i(&l["nsu"]),
            locale: opt_i(&l["lcl"]),
            localized_text: opt_i(&l["ltx"]),
            additional_info: if gb(&l["add"], "some") { Some(to_str(&l["add"]["s"])) } else { None },
            inner_status_code: if gb(&l["ist"], "some") {
                let b = bytes_of(&l["ist"]["raw"]);
                Some(StatusCode::from_bits_truncate(u32::from_le_bytes([b[0], b[1], b[2], b[3]])))
            } else {
                None
            },
            inner_diagnostic_info: cur.take(),
        };
        cur = Some(Box::new(d));
    }
    cur.map(|b| *b).unwrap_or_else(DiagnosticInfo::null)
}
pub fn from_di(d: &DiagnosticInfo) -> Value {
    let mut out = Vec::new();
    let mut cur = Some(d);
    while let Some(x) = cur {
        out.push(json!({
            "sym": from_opt_i(&x.symbolic_id), "nsu": from_opt_i(&x.namespace_uri), "lcl": from_opt_i(&x.locale),
            "ltx": from_opt_i(&x.localized_text),
            "add": match &x.additional_info { Some(s) => json!({"some": true, "s": from_str(s)}), None => json!({"some": false, "s": {"nl": true, "b": []}}) },
            "ist": match &x.inner_status_code { Some(s) => json!({"some": true, "raw": jbytes(&s.bits().to_le_bytes())}), None => json!({"some": false, "raw": [0, 0, 0, 0]}) },
        }));
        cur = x.inner_diagnostic_info.as_deref();
    }
    Value::Array(out)
}

// ---- data value
fn to_ts(v: &Value) -> (Option<DateTime>, Option<u16>) {
    match gi(v, "m") {
        0 => (None, None),
        1 => (Some(to_dt(gs(v, "dt"))), None),
        _ => (Some(to_dt(gs(v, "dt"))), Some(gi(v, "p") as u16)),
    }
}
fn from_ts(t: &Option<DateTime>, p: &Option<u16>) -> Value {
    match (t, p) {
        (None, None) => json!({"m": 0, "dt": "epoch", "p": 0}),
        (Some(t), None) => json!({"m": 1, "dt": from_dt(t), "p": 0}),
        (Some(t), Some(p)) => json!({"m": 2, "dt": from_dt(t), "p": *p}),
        // picoseconds without a timestamp: not a value of the specification
        (None, Some(p)) => json!({"m": 3, "dt": "epoch", "p": *p}),
    }
}
pub fn to_dv(v: &Value) -> DataValue {
    let (st, sp) = to_ts(&v["sts"]);
    let (vt, vp) = to_ts(&v["svs"]);
    let b = bytes_of(&v["st"]);
    DataValue {
        value: if gb(v, "hv") { Some(to_variant(&v["v"])) } else { None },
        status: if gb(v, "hs") { Some(StatusCode::from_bits_truncate(u32::from_le_bytes([b[0], b[1], b[2], b[3]]))) } else { None },
        source_timestamp: st,
        source_picoseconds: sp,
        server_timestamp: vt,
        server_picoseconds: vp,
    }
}
pub fn from_dv(d: &DataValue) -> Value {
    json!({
        "hv": d.value.is_some(),
        "v": match &d.value { Some(v) => from_variant(v), None => json!({"t": "Empty"}) },
        "hs": d.status.is_some(),
        "st": match &d.status { Some(s) => jbytes(&s.bits().to_le_bytes()), None => json!([0, 0, 0, 0]) },
        "sts": from_ts(&d.source_timestamp, &d.source_picoseconds),
        "svs": from_ts(&d.server_timestamp, &d.server_picoseconds),
    })
}

// ---- variant
fn type_id(name: &str) -> VariantTypeId {
    use VariantTypeId::*;
    match name {
        "Boolean" => Boolean, "SByte" => SByte, "Byte" => Byte, "Int16" => Int16, "UInt16" => UInt16, "Int32" => Int32,
        "UInt32" => UInt32, "Int64" => Int64, "UInt64" => UInt64, "Float" => Float, "Double" => Double, "String" => String,
        "DateTime" => DateTime, "Guid" => Guid, "StatusCode" => StatusCode, "ByteString" => ByteString,
        "XmlElement" => XmlElement, "QualifiedName" => QualifiedName, "LocalizedText" => LocalizedText, "NodeId" => NodeId,
        "ExpandedNodeId" => ExpandedNodeId, "ExtensionObject" => ExtensionObject, "Variant" => Variant,
        "DataValue" => DataValue, "DiagnosticInfo" => DiagnosticInfo, "Array" => Array, _ => Empty,
    }
}
fn arr<const N: usize>(b: &[u8]) -> [u8; N] {
    let mut a = [0u8; N];
    for (i, x) in b.iter().take(N).enumerate() {
        a[i] = *x;
    }
    a
}
pub fn to_variant(v: &Value) -> Variant {
    let t = gs(v, "t");
    let raw = bytes_of(&v["raw"]);
    match t {
        "Boolean" => Variant::Boolean(raw[0] != 0),
        "SByte" => Variant::SByte(raw[0] as i8),
        "Byte" => Variant::Byte(raw[0]),
        "Int16" => Variant::Int16(i16::from_le_bytes(arr(&raw))),
        "UInt16" => Variant::UInt16(u16::from_le_bytes(arr(&raw))),
        "Int32" => Variant::Int32(i32::from_le_bytes(arr(&raw))),
        "UInt32" => Variant::UInt32(u32::from_le_bytes(arr(&raw))),
        "Int64" => Variant::Int64(i64::from_le_bytes(arr(&raw))),
        "UInt64" => Variant::UInt64(u64::from_le_bytes(arr(&raw))),
        "Float" => Variant::Float(f32::from_le_bytes(arr(&raw))),
        "Double" => Variant::Double(f64::from_le_bytes(arr(&raw))),
        "Guid" => Variant::Guid(Box::new(Guid::from_bytes(arr(&raw)))),
        "StatusCode" => Variant::StatusCode(StatusCode::from_bits_truncate(u32::from_le_bytes(arr(&raw)))),
        "DateTime" => Variant::DateTime(Box::new(to_dt(gs(v, "dt")))),
        "String" => Variant::String(to_str(&v["s"])),
        "XmlElement" => Variant::XmlElement(to_str(&v["s"])),
        "ByteString" => Variant::ByteString(to_bs(&v["s"])),
        "NodeId" => Variant::NodeId(Box::new(to_nid(&v["id"]))),
        "ExpandedNodeId" => Variant::ExpandedNodeId(Box::new(to_xnid(&v["xid"]))),
        "QualifiedName" => Variant::QualifiedName(Box::new(to_qn(&v["qn"]))),
        "LocalizedText" => Variant::LocalizedText(Box::new(to_lt(&v["lt"]))),
        "ExtensionObject" => Variant::ExtensionObject(Box::new(to_eo(&v["eo"]))),
        "DataValue" => Variant::DataValue(Box::new(to_dv(&v["dv"]))),
        "Variant" => Variant::Variant(Box::new(to_variant(&v["v"]))),
        "DiagnosticInfo" => Variant::DiagnosticInfo(Box::new(to_di(&v["di"]))),
        "Array" => {
            let values: Vec<Variant> = v["items"].as_array().map(|a| a.iter().map(to_variant).collect()).unwrap_or_default();
            let dimensions = if gb(&v["dims"], "some") {
                Some(v["dims"]["d"].as_array().map(|a| a.iter().map(|x| x.as_u64().unwrap_or(0) as u32).collect()).unwrap_or_default())
            } else {
                None
            };
            Variant::Array(Box::new(Array { value_type: type_id(gs(v, "ety")), values, dimensions }))
        }
        _ => Variant::Empty,
    }
}
pub fn from_variant(v: &Variant) -> Value {
    fn fix(t: &str, b: &[u8]) -> Value {
        json!({"t": t, "raw": jbytes(b)})
    }
    match v {
        Variant::Empty => json!({"t": "Empty"}),
        Variant::Boolean(x) => fix("Boolean", &[*x as u8]),
        Variant::SByte(x) => fix("SByte", &x.to_le_bytes()),
        Variant::Byte(x) => fix("Byte", &[*x]),
        Variant::Int16(x) => fix("Int16", &x.to_le_bytes()),
        Variant::UInt16(x) => fix("UInt16", &x.to_le_bytes()),
        Variant::Int32(x) => fix("Int32", &x.to_le_bytes()),
        Variant::UInt32(x) => fix("UInt32", &x.to_le_bytes()),
        Variant::Int64(x) => fix("Int64", &x.to_le_bytes()),
        Variant::UInt64(x) => fix("UInt64", &x.to_le_bytes()),
        Variant::Float(x) => fix("Float", &x.to_le_bytes()),
        Variant::Double(x) => fix("Double", &x.to_le_bytes()),
        Variant::Guid(x) => fix("Guid", x.as_bytes()),
        Variant::StatusCode(x) => fix("StatusCode", &x.bits().to_le_bytes()),
        Variant::DateTime(x) => json!({"t": "DateTime", "dt": from_dt(x)}),
        Variant::String(x) => json!({"t": "String", "s": from_str(x)}),
        Variant::XmlElement(x) => json!({"t": "XmlElement", "s": from_str(x)}),
        Variant::ByteString(x) => json!({"t": "ByteString", "s": from_bs(x)}),
        Variant::NodeId(x) => json!({"t": "NodeId", "id": from_nid(x)}),
        Variant::ExpandedNodeId(x) => json!({"t": "ExpandedNodeId", "xid": from_xnid(x)}),
        Variant::QualifiedName(x) => json!({"t": "QualifiedName", "qn": from_qn(x)}),
        Variant::LocalizedText(x) => json!({"t": "LocalizedText", "lt": from_lt(x)}),
        Variant::ExtensionObject(x) => json!({"t": "ExtensionObject", "eo": from_eo(x)}),
        Variant::DataValue(x) => json!({"t": "DataValue", "dv": from_dv(x)}),
        Variant::Variant(x) => json!({"t": "Variant", "v": from_variant(x)}),
        Variant::DiagnosticInfo(x) => json!({"t": "DiagnosticInfo", "di": from_di(x)}),
        Variant::Array(a) => json!({
            "t": "Array", "ety": format!("{:?}", a.value_type),
            "items": Value::Array(a.values.iter().map(from_variant).collect()),
            "dims": match &a.dimensions { Some(d) => json!({"some": true, "d": d.iter().map(|x| *x as i64).collect::<Vec<i64>>()}), None => json!({"some": false, "d": []}) },
        }),
    }
}

// ---- optional arrays
fn to_arr<T>(v: &Value, f: impl Fn(&Value) -> T) -> Option<Vec<T>> {
    if gb(v, "some") {
        Some(v["items"].as_array().map(|a| a.iter().map(|x| f(x)).collect()).unwrap_or_default())
    } else {
        None
    }
}
fn from_arr<T>(a: &Option<Vec<T>>, f: impl Fn(&T) -> Value) -> Value {
    match a {
        Some(v) => json!({"some": true, "items": Value::Array(v.iter().map(|x| f(x)).collect())}),
        None => json!({"some": false, "items": []}),
    }
}

// ---- representative messages
fn req_hdr(aud: UAString) -> RequestHeader {
    RequestHeader {
        authentication_token: NodeId::null(),
        timestamp: DateTime::epoch(),
        request_handle: 1,
        return_diagnostics: DiagnosticBits::empty(),
        audit_entry_id: aud,
        timeout_hint: 0,
        additional_header: ExtensionObject::null(),
    }
}
fn resp_hdr(di: DiagnosticInfo, tbl: Option<Vec<UAString>>) -> ResponseHeader {
    ResponseHeader {
        timestamp: DateTime::epoch(),
        request_handle: 1,
        service_result: StatusCode::Good,
        service_diagnostics: di,
        string_table: tbl,
        additional_header: ExtensionObject::null(),
    }
}

/// A value of any of the types the specification talks about.
#[derive(Debug, Clone, PartialEq)]
pub enum Any {
    Variant(Variant),
    Dv(DataValue),
    Di(DiagnosticInfo),
    Eo(ExtensionObject),
    Nid(NodeId),
    XNid(ExpandedNodeId),
    Lt(LocalizedText),
    Qn(QualifiedName),
    Str(UAString),
    Bs(ByteString),
    Write(WriteRequest),
    Call(CallRequest),
    ReadResp(ReadResponse),
    Fault(ServiceFault),
    /// decoded only (C02 / C03 roots): nothing to re-abstract
    Opaque,
}

impl Any {
    pub fn from_json(ty: &str, w: &Value) -> Any {
        match ty {
            "Variant" => Any::Variant(to_variant(w)),
            "DataValue" => Any::Dv(to_dv(&w["dv"])),
            "DiagnosticInfo" => Any::Di(to_di(&w["di"])),
            "ExtensionObject" => Any::Eo(to_eo(&w["eo"])),
            "NodeId" => Any::Nid(to_nid(&w["id"])),
            "ExpandedNodeId" => Any::XNid(to_xnid(&w["xid"])),
            "LocalizedText" => Any::Lt(to_lt(&w["lt"])),
            "QualifiedName" => Any::Qn(to_qn(&w["qn"])),
            "String" => Any::Str(to_str(&w["s"])),
            "ByteString" => Any::Bs(to_bs(&w["s"])),
            "WriteRequest" => {
                let m = &w["msg"];
                Any::Write(WriteRequest {
                    request_header: req_hdr(to_str(&m["aud"])),
                    nodes_to_write: to_arr(&m["nodes"], |x| WriteValue {
                        node_id: to_nid(&x["id"]),
                        attribute_id: gi(x, "attr") as u32,
                        index_range: to_str(&x["range"]),
                        value: to_dv(&x["dv"]),
                    }),
                })
            }
            "CallRequest" => {
                let m = &w["msg"];
                Any::Call(CallRequest {
                    request_header: req_hdr(to_str(&m["aud"])),
                    methods_to_call: to_arr(&m["calls"], |x| CallMethodRequest {
                        object_id: to_nid(&x["obj"]),
                        method_id: to_nid(&x["meth"]),
                        input_arguments: to_arr(&x["args"], to_variant),
                    }),
                })
            }
            "ReadResponse" => {
                let m = &w["msg"];
                Any::ReadResp(ReadResponse {
                    response_header: resp_hdr(to_di(&m["di"]), to_arr(&m["tbl"], to_str)),
                    results: to_arr(&m["results"], to_dv),
                    diagnostic_infos: to_arr(&m["diags"], to_di),
                })
            }
            "ServiceFault" => {
                let m = &w["msg"];
                Any::Fault(ServiceFault { response_header: resp_hdr(to_di(&m["di"]), to_arr(&m["tbl"], to_str)) })
            }
            _ => Any::Opaque,
        }
    }

    pub fn to_json(&self) -> Value {
        match self {
            Any::Variant(v) => from_variant(v),
            Any::Dv(v) => json!({"t": "DataValue", "dv": from_dv(v)}),
            Any::Di(v) => json!({"t": "DiagnosticInfo", "di": from_di(v)}),
            Any::Eo(v) => json!({"t": "ExtensionObject", "eo": from_eo(v)}),
            Any::Nid(v) => json!({"t": "NodeId", "id": from_nid(v)}),
            Any::XNid(v) => json!({"t": "ExpandedNodeId", "xid": from_xnid(v)}),
            Any::Lt(v) => json!({"t": "LocalizedText", "lt": from_lt(v)}),
            Any::Qn(v) => json!({"t": "QualifiedName", "qn": from_qn(v)}),
            Any::Str(v) => json!({"t": "String", "s": from_str(v)}),
            Any::Bs(v) => json!({"t": "ByteString", "s": from_bs(v)}),
            Any::Write(m) => json!({"t": "WriteRequest", "msg": {
                "aud": from_str(&m.request_header.audit_entry_id),
                "nodes": from_arr(&m.nodes_to_write, |x| json!({"id": from_nid(&x.node_id), "attr": x.attribute_id as i64,
                          "range": from_str(&x.index_range), "dv": from_dv(&x.value)}))}}),
            Any::Call(m) => json!({"t": "CallRequest", "msg": {
                "aud": from_str(&m.request_header.audit_entry_id),
                "calls": from_arr(&m.methods_to_call, |x| json!({"obj": from_nid(&x.object_id), "meth": from_nid(&x.method_id),
                          "args": from_arr(&x.input_arguments, from_variant)}))}}),
            Any::ReadResp(m) => json!({"t": "ReadResponse", "msg": {
                "di": from_di(&m.response_header.service_diagnostics), "tbl": from_arr(&m.response_header.string_table, from_str),
                "results": from_arr(&m.results, from_dv), "diags": from_arr(&m.diagnostic_infos, from_di)}}),
            Any::Fault(m) => json!({"t": "ServiceFault", "msg": {
                "di": from_di(&m.response_header.service_diagnostics), "tbl": from_arr(&m.response_header.string_table, from_str)}}),
            Any::Opaque => json!({"t": "Empty"}),
        }
    }

    pub fn byte_len(&self) -> usize {
        match self {
            Any::Variant(v) => v.byte_len(),
            Any::Dv(v) => v.byte_len(),
            Any::Di(v) => v.byte_len(),
            Any::Eo(v) => v.byte_len(),
            Any::Nid(v) => v.byte_len(),
            Any::XNid(v) => v.byte_len(),
            Any::Lt(v) => v.byte_len(),
            Any::Qn(v) => v.byte_len(),
            Any::Str(v) => v.byte_len(),
            Any::Bs(v) => v.byte_len(),
            Any::Write(v) => v.byte_len(),
            Any::Call(v) => v.byte_len(),
            Any::ReadResp(v) => v.byte_len(),
            Any::Fault(v) => v.byte_len(),
            Any::Opaque => 0,
        }
    }

    pub fn encode<S: Write>(&self, s: &mut S) -> EncodingResult<usize> {
        match self {
            Any::Variant(v) => v.encode(s),
            Any::Dv(v) => v.encode(s),
            Any::Di(v) => v.encode(s),
            Any::Eo(v) => v.encode(s),
            Any::Nid(v) => v.encode(s),
            Any::XNid(v) => v.encode(s),
            Any::Lt(v) => v.encode(s),
            Any::Qn(v) => v.encode(s),
            Any::Str(v) => v.encode(s),
            Any::Bs(v) => v.encode(s),
            Any::Write(v) => v.encode(s),
            Any::Call(v) => v.encode(s),
            Any::ReadResp(v) => v.encode(s),
            Any::Fault(v) => v.encode(s),
            Any::Opaque => Ok(0),
        }
    }

    /// Decode a value of the named type with the public decoders of the crate.
    pub fn decode<S: Read>(ty: &str, s: &mut S, o: &DecodingOptions) -> EncodingResult<Any> {
        use opcua::core::supported_message::SupportedMessage;
        Ok(match ty {
            "Variant" => Any::Variant(Variant::decode(s, o)?),
            "DataValue" => Any::Dv(DataValue::decode(s, o)?),
            "DiagnosticInfo" => Any::Di(DiagnosticInfo::decode(s, o)?),
            "ExtensionObject" => Any::Eo(ExtensionObject::decode(s, o)?),
            "NodeId" => Any::Nid(NodeId::decode(s, o)?),
            "ExpandedNodeId" => Any::XNid(ExpandedNodeId::decode(s, o)?),
            "LocalizedText" => Any::Lt(LocalizedText::decode(s, o)?),
            "QualifiedName" => Any::Qn(QualifiedName::decode(s, o)?),
            "String" => Any::Str(UAString::decode(s, o)?),
            "ByteString" => Any::Bs(ByteString::decode(s, o)?),
            // service messages go through the dispatcher the transport uses
            "WriteRequest" => match SupportedMessage::decode_by_object_id(s, ObjectId::WriteRequest_Encoding_DefaultBinary, o)? {
                SupportedMessage::WriteRequest(m) => Any::Write(*m),
                _ => Any::Opaque,
            },
            "CallRequest" => match SupportedMessage::decode_by_object_id(s, ObjectId::CallRequest_Encoding_DefaultBinary, o)? {
                SupportedMessage::CallRequest(m) => Any::Call(*m),
                _ => Any::Opaque,
            },
            "ReadResponse" => match SupportedMessage::decode_by_object_id(s, ObjectId::ReadResponse_Encoding_DefaultBinary, o)? {
                SupportedMessage::ReadResponse(m) => Any::ReadResp(*m),
                _ => Any::Opaque,
            },
            "ServiceFault" => match SupportedMessage::decode_by_object_id(s, ObjectId::ServiceFault_Encoding_DefaultBinary, o)? {
                SupportedMessage::ServiceFault(m) => Any::Fault(*m),
                _ => Any::Opaque,
            },
            "BrowseNextRequest" => {
                SupportedMessage::decode_by_object_id(s, ObjectId::BrowseNextRequest_Encoding_DefaultBinary, o)?;
                Any::Opaque
            }
            "PublishResponse" => {
                SupportedMessage::decode_by_object_id(s, ObjectId::PublishResponse_Encoding_DefaultBinary, o)?;
                Any::Opaque
            }
            "ArrString" => {
                let _: Option<Vec<UAString>> = read_array(s, o)?;
                Any::Opaque
            }
            "ArrByteString" => {
                let _: Option<Vec<ByteString>> = read_array(s, o)?;
                Any::Opaque
            }
            "ArrVariant" => {
                let _: Option<Vec<Variant>> = read_array(s, o)?;
                Any::Opaque
            }
            "ArrInt32" => {
                let _: Option<Vec<i32>> = read_array(s, o)?;
                Any::Opaque
            }
            // an extension object whose body is decoded the way the services do it (decode_inner)
            "EoString" => {
                let e = ExtensionObject::decode(s, o)?;
                e.decode_inner::<UAString>(o)?;
                Any::Opaque
            }
            "EoByteString" => {
                let e = ExtensionObject::decode(s, o)?;
                e.decode_inner::<ByteString>(o)?;
                Any::Opaque
            }
            "EoVariant" => {
                let e = ExtensionObject::decode(s, o)?;
                e.decode_inner::<LiteralOperand>(o)?;
                Any::Opaque
            }
            "EoDataChange" => {
                let e = ExtensionObject::decode(s, o)?;
                e.decode_inner::<DataChangeNotification>(o)?;
                Any::Opaque
            }
            "Hello" => {
                opcua::core::comms::tcp_types::HelloMessage::decode(s, o)?;
                Any::Opaque
            }
            "Acknowledge" => {
                opcua::core::comms::tcp_types::AcknowledgeMessage::decode(s, o)?;
                Any::Opaque
            }
            "Error" => {
                opcua::core::comms::tcp_types::ErrorMessage::decode(s, o)?;
                Any::Opaque
            }
            "ChunkHeader" => {
                opcua::core::comms::message_chunk::MessageChunkHeader::decode(s, o)?;
                Any::Opaque
            }
            "Chunk" => {
                opcua::core::comms::message_chunk::MessageChunk::decode(s, o)?;
                Any::Opaque
            }
            _ => return Err(StatusCode::BadNotSupported),
        })
    }
}

/// DecodingOptions from the case {nm, msg, str, bs, arr, depth}: nm "default" / "minimal" = the presets of the crate
pub fn options(v: &Value) -> DecodingOptions {
    match gs(v, "nm") {
        "minimal" => DecodingOptions::minimal(),
        "default" => DecodingOptions::default(),
        _ => DecodingOptions {
            client_offset: chrono::Duration::zero(),
            max_message_size: gi(v, "msg") as usize,
            max_chunk_count: 5,
            max_string_length: gi(v, "str") as usize,
            max_byte_string_length: gi(v, "bs") as usize,
            max_array_length: gi(v, "arr") as usize,
            decoding_depth_gauge: Arc::new(DepthGauge::new(gi(v, "depth") as u64)),
        },
    }
}
pub fn options_json(o: &DecodingOptions) -> Value {
    json!({"msg": o.max_message_size, "str": o.max_string_length, "bs": o.max_byte_string_length,
           "arr": o.max_array_length, "depth": o.decoding_depth_gauge.max_depth()})
}

/// expand a byte recipe: sequence of {n, b} = b repeated n times
pub fn expand(segs: &Value) -> Vec<u8> {
    let mut out = Vec::new();
    for s in segs.as_array().cloned().unwrap_or_default() {
        let b = bytes_of(&s["b"]);
        let n = s["n"].as_u64().unwrap_or(1) as usize;
        out.reserve(b.len() * n);
        for _ in 0..n {
            out.extend_from_slice(&b);
        }
    }
    out
}

/// largest size_of of the element types a decoder reserves vectors of
pub fn elem_bytes() -> usize {
    use std::mem::size_of;
    [size_of::<Variant>(), size_of::<DataValue>(), size_of::<DiagnosticInfo>(), size_of::<UAString>(), size_of::<ByteString>(),
     size_of::<WriteValue>(), size_of::<CallMethodRequest>(), size_of::<MonitoredItemNotification>(), size_of::<ExtensionObject>()]
        .into_iter().max().unwrap_or(64)
}

pub fn cursor(b: Vec<u8>) -> Cursor<Vec<u8>> {
    Cursor::new(b)
}
