#!/bin/sh
# Builds the conformance harness crates offline against /repo's current working tree (hooks on).
set -e
here="$(cd "$(dirname "$0")" && pwd)"
for d in "$here"/harness "$here"/h_*; do
  [ -f "$d/Cargo.toml" ] || continue
  [ -f "$d/Cargo.lock" ] || cp /repo/Cargo.lock "$d/Cargo.lock"
  (cd "$d" && CARGO_NET_OFFLINE=true cargo build --offline -q)
  echo "built $d"
done
mkdir -p "$here/out" "$here/evidence"
