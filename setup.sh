#!/bin/sh
# Builds the conformance harness offline against /repo's current working tree (hooks on).
set -e
cd "$(dirname "$0")/harness"
[ -f Cargo.lock ] || cp /repo/Cargo.lock Cargo.lock
CARGO_NET_OFFLINE=true cargo build --offline -q
mkdir -p ../out ../evidence
echo "harness built"
