#!/bin/sh
# Builds the conformance harness crates offline against /repo's current working tree (hooks on).
# crates.txt lists the harness crates that registered checks use.
set -e
here="$(cd "$(dirname "$0")" && pwd)"
for c in $(cat "$here/crates.txt"); do
  d="$here/$c"
  [ -f "$d/Cargo.lock" ] || cp /repo/Cargo.lock "$d/Cargo.lock"
  (cd "$d" && CARGO_NET_OFFLINE=true cargo build --offline -q)
  echo "built $c"
done
mkdir -p "$here/out" "$here/evidence"
