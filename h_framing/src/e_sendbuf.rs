//! Engine `sendbuf` (C11, send side): replays partial-write schedules generated from Framing.tla on the real client
//! `SendBuffer`, driven as `client::transport::tcp::TcpTransport::poll` drives it (`write`, `should_encode_chunks` ->
//! `encode_next_chunk`, `can_read` -> `read_into_async`), with an `AsyncWrite` sink that accepts exactly the scheduled
//! number of bytes per call, zero bytes, or is Pending (the future is then dropped, as `select!` drops it).
//!
//! case = {"case": id, "msgs": [payload size of the WriteRequest, ...], "steps": [{"ev":"Script"}, {"ev":"Submit"},
//!         {"ev":"Encode"}, {"ev":"Sock","r":"acc"|"zero"|"pend","k":..,"n":..}, .., {"ev":"End"}]}
//! One observation per step. `dg` = sha1 of everything the sink accepted so far, `ref` = sha1 of the first `tot`
//! bytes of the concatenation of the secured chunks (each chunk the buffer queued, secured with the channel).
use crate::common::*;
use crate::util::*;
use crate::Obs;
use opcua::client::verif::VerifSendBuffer;
use serde_json::{json, Value};
use std::future::Future;
use std::pin::Pin;
use std::task::{Context, Poll};
use tokio::io::AsyncWrite;

thread_local! {
    pub static RT: tokio::runtime::Runtime = tokio::runtime::Builder::new_current_thread().enable_all().build().unwrap();
}

#[derive(Clone, Copy)]
pub enum Answer {
    Accept(usize),
    Zero,
    Pending,
}

/// The socket: accepts what the schedule says.
pub struct Sink {
    pub data: Vec<u8>,
    pub answer: Answer,
    pub offered: Vec<usize>,
}

impl AsyncWrite for Sink {
    fn poll_write(mut self: Pin<&mut Self>, _cx: &mut Context<'_>, buf: &[u8]) -> Poll<std::io::Result<usize>> {
        self.offered.push(buf.len());
        match self.answer {
            Answer::Accept(k) => {
                let a = k.min(buf.len());
                self.data.extend_from_slice(&buf[..a]);
                Poll::Ready(Ok(a))
            }
            Answer::Zero => Poll::Ready(Ok(0)),
            Answer::Pending => Poll::Pending,
        }
    }
    fn poll_flush(self: Pin<&mut Self>, _cx: &mut Context<'_>) -> Poll<std::io::Result<()>> {
        Poll::Ready(Ok(()))
    }
    fn poll_shutdown(self: Pin<&mut Self>, _cx: &mut Context<'_>) -> Poll<std::io::Result<()>> {
        Poll::Ready(Ok(()))
    }
}

/// one call of `read_into_async`, polled once; a Pending future is dropped
pub fn sock_once(sb: &mut VerifSendBuffer, sink: &mut Sink) -> Result<bool, String> {
    let w = futures::task::noop_waker();
    let mut cx = Context::from_waker(&w);
    let mut f = Box::pin(sb.read_into_async(sink));
    match f.as_mut().poll(&mut cx) {
        Poll::Ready(Ok(())) => Ok(true),
        Poll::Ready(Err(e)) => Err(format!("{}", e)),
        Poll::Pending => Ok(false),
    }
}

fn proj(sb: &VerifSendBuffer) -> Value {
    let (reading, end, pos, nq) = sb.verif_state();
    json!({"reading": reading, "end": end, "pos": pos, "nq": nq})
}

pub fn run_case(case: &Value, out: &mut Obs) {
    let cid = case.get("case").cloned().unwrap_or(Value::Null);
    let empty = vec![];
    let msgs: Vec<usize> = case.get("msgs").and_then(|x| x.as_array()).unwrap_or(&empty).iter().map(|x| x.as_u64().unwrap_or(0) as usize).collect();
    let (channel, _) = channel_pair("None", 7);
    RT.with(|rt| {
        let _g = rt.enter();
        let mut sb = VerifSendBuffer::new(CHUNK_SIZE, 0, 0);
        let mut sink = Sink { data: Vec::new(), answer: Answer::Zero, offered: Vec::new() };
        let mut secured: Vec<u8> = Vec::new();
        let mut nm = 0usize;
        let steps = case.get("steps").and_then(|s| s.as_array()).unwrap_or(&empty);
        for (i, s) in steps.iter().enumerate() {
            let mut rec = json!({"case": cid, "i": i + 1, "ev": gets(s, "ev"), "fail": "none", "site": ""});
            let r = guard(|| {
                let mut o = json!({});
                match gets(s, "ev") {
                    "Script" => {
                        o["msgs"] = json!(msgs);
                    }
                    "Submit" => {
                        let payload = msgs.get(nm).copied().unwrap_or(10);
                        nm += 1;
                        let before = sb.verif_queued_chunks().len();
                        let id = sb.next_request_id();
                        let r = sb.write(id, write_request(payload, 100 + nm as u32), &channel);
                        let mut sizes = Vec::new();
                        if r.is_ok() {
                            // the secured form of the chunks this message added to the queue
                            let q = sb.verif_queued_chunks();
                            for c in q.iter().skip(before) {
                                let mut dst = vec![0u8; c.data.len() + 4096];
                                let n = channel.apply_security(c, &mut dst).expect("apply_security");
                                secured.extend_from_slice(&dst[..n]);
                                sizes.push(n);
                            }
                        }
                        o["ok"] = json!(r.is_ok());
                        o["chunks"] = json!(sizes);
                        o["st"] = proj(&sb);
                    }
                    "Encode" => {
                        let should = sb.should_encode_chunks();
                        let ok = should && sb.encode_next_chunk(&channel).is_ok();
                        o["ok"] = json!(ok);
                        o["st"] = proj(&sb);
                    }
                    "Sock" => {
                        let k = geti(s, "k") as usize;
                        let cnt = geti(s, "n").max(1) as usize;
                        sink.answer = match gets(s, "r") {
                            "acc" => Answer::Accept(k.max(1)),
                            "zero" => Answer::Zero,
                            _ => Answer::Pending,
                        };
                        let before = sink.data.len();
                        sink.offered.clear();
                        let mut done = 0;
                        let mut io_err = json!("");
                        for j in 1..=cnt {
                            if !sb.can_read() {
                                break;
                            }
                            done = j;
                            if let Err(e) = sock_once(&mut sb, &mut sink) {
                                io_err = json!(e);
                                break;
                            }
                        }
                        let tot = sink.data.len();
                        o["r"] = json!(gets(s, "r"));
                        o["k"] = json!(k);
                        o["n"] = json!(done);
                        o["offered"] = json!(sink.offered.first().copied().unwrap_or(0));
                        o["got"] = json!(tot - before);
                        o["tot"] = json!(tot);
                        o["dg"] = json!(digest(&sink.data));
                        o["ref"] = json!(digest(&secured[..tot.min(secured.len())]));
                        o["ioerr"] = io_err;
                        o["st"] = proj(&sb);
                    }
                    "End" => {
                        // the socket now takes everything: run the transport loop until the buffer is idle
                        sink.answer = Answer::Accept(usize::MAX);
                        let mut fuel = 64;
                        while fuel > 0 {
                            fuel -= 1;
                            if sb.should_encode_chunks() {
                                if sb.encode_next_chunk(&channel).is_err() {
                                    break;
                                }
                            } else if sb.can_read() {
                                if sock_once(&mut sb, &mut sink).is_err() {
                                    break;
                                }
                            } else {
                                break;
                            }
                        }
                        let tot = sink.data.len();
                        let (_, _, _, nq) = sb.verif_state();
                        o["idle"] = json!(!sb.can_read() && nq == 0);
                        o["tot"] = json!(tot);
                        o["dg"] = json!(digest(&sink.data));
                        o["ref"] = json!(digest(&secured[..tot.min(secured.len())]));
                        o["want"] = json!(secured.len());
                        o["st"] = proj(&sb);
                    }
                    _ => {}
                }
                o
            });
            match r {
                Ok(o) => {
                    for (k, v) in o.as_object().unwrap() {
                        rec[k.as_str()] = v.clone();
                    }
                    out.push(rec);
                }
                Err(site) => {
                    // the record keeps the shape the monitor reads
                    rec["fail"] = json!("panic");
                    rec["site"] = json!(site_sig(&site));
                    rec["ok"] = json!(false);
                    rec["chunks"] = json!([]);
                    rec["idle"] = json!(false);
                    rec["tot"] = json!(sink.data.len());
                    rec["dg"] = json!("");
                    rec["ref"] = json!("");
                    out.push(rec);
                    break;
                }
            }
        }
    });
}
