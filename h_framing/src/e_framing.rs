//! Engine `framing` (C11, receive side): replays segmentations generated from Framing.tla on the real
//! `TcpCodec::decode`, driven as tokio_util's `FramedRead` drives it (append the bytes of one read to the
//! `BytesMut`, call `decode` until it returns `None` or an error; `decode_eof` at the end of the stream).
//!
//! case = {"case": id, "frames": [{"name": catalog name, "size": declared size (oversize frames), "len": bytes present}],
//!         "max": max_message_size of the decoder, "steps": [{"ev":"Stream"}, {"ev":"Read","k":..,"n":..}, .., {"ev":"Eof"}]}
//! One observation per step. Frames are identified by the sha1 of their bytes: the `Stream` record lists the
//! frames put into the stream, `out` of a `Read` lists the re-encoded frames the decoder yielded.
//!
//! Engine `frcat`: the catalog. case = {"names": [..]} -> one record per frame {name, kind, size, len}; for
//! "w:<payload>" also the sizes of the secured chunks the client send buffer makes of that message.
use crate::common::*;
use crate::util::*;
use crate::Obs;
use bytes::BytesMut;
use opcua::core::comms::tcp_codec::{Message, TcpCodec};
use opcua::types::DecodingOptions;
use serde_json::{json, Value};
use tokio_util::codec::{Decoder, Encoder};

/// frame "name" or "name#part" (part of a multi chunk message, 1-based)
pub fn frame_bytes(name: &str, declared: u32, len: usize) -> Vec<u8> {
    let (base, part) = match name.split_once('#') {
        Some((b, p)) => (b, p.parse::<usize>().expect("part")),
        None => (name, 1),
    };
    // the builders are deterministic: build each message once per process
    thread_local! {
        static CACHE: std::cell::RefCell<std::collections::HashMap<String, Vec<Vec<u8>>>> = std::cell::RefCell::new(std::collections::HashMap::new());
    }
    let key = format!("{}/{}/{}", base, declared, len);
    CACHE.with(|c| {
        let mut c = c.borrow_mut();
        let v = c.entry(key).or_insert_with(|| build_frames(base, declared, len));
        if part == 0 || part > v.len() {
            panic!("frame {} has {} parts", name, v.len());
        }
        v[part - 1].clone()
    })
}

pub fn catalog(case: &Value, out: &mut Obs) {
    let empty = vec![];
    let mut i = 0;
    for n in case.get("names").and_then(|x| x.as_array()).unwrap_or(&empty) {
        let name = n.as_str().unwrap_or("");
        let frames = build_frames(name, 0, 0);
        let many = frames.len() > 1 || name.starts_with("w:");
        for (j, f) in frames.iter().enumerate() {
            i += 1;
            let nm = if many { format!("{}#{}", name, j + 1) } else { name.to_string() };
            out.push(json!({"case": 1, "i": i, "ev": "Frame", "name": nm, "kind": kind_of(f), "size": declared_size(f), "len": f.len(),
                            "msg": name, "part": j + 1, "parts": frames.len()}));
        }
    }
}

fn reencode(codec: &mut TcpCodec, m: Message) -> Vec<u8> {
    let mut b = BytesMut::new();
    codec.encode(m, &mut b).expect("re-encode");
    b.to_vec()
}

pub fn run_case(case: &Value, out: &mut Obs) {
    let cid = case.get("case").cloned().unwrap_or(Value::Null);
    let empty = vec![];
    let max = geti(case, "max") as usize;
    let mut stream: Vec<u8> = Vec::new();
    let mut frames = Vec::new();
    for (j, f) in case.get("frames").and_then(|x| x.as_array()).unwrap_or(&empty).iter().enumerate() {
        let b = frame_bytes(gets(f, "name"), geti(f, "size") as u32, geti(f, "len") as usize);
        frames.push(json!({"id": digest(&b), "kind": kind_of(&b), "size": declared_size(&b), "len": b.len(), "idx": j + 1}));
        stream.extend_from_slice(&b);
    }
    let opts = DecodingOptions { max_message_size: max, ..DecodingOptions::default() };
    let mut codec = TcpCodec::new(opts);
    let mut buf = BytesMut::new();
    let mut pos = 0usize;
    let mut dead = false; // the decoder returned an error or panicked: FramedRead ends the stream
    let steps = case.get("steps").and_then(|s| s.as_array()).unwrap_or(&empty);
    for (i, s) in steps.iter().enumerate() {
        let mut rec = json!({"case": cid, "i": i + 1, "ev": gets(s, "ev"), "fail": "none", "site": ""});
        match gets(s, "ev") {
            "Stream" => {
                rec["frames"] = json!(frames);
                rec["max"] = json!(max);
            }
            "Read" => {
                let k = geti(s, "k").max(1) as usize;
                let cnt = geti(s, "n").max(1) as usize;
                let mut outs: Vec<String> = Vec::new();
                let mut at: Vec<usize> = Vec::new();
                let mut err = false;
                let mut done = 0;
                for j in 1..=cnt {
                    if pos >= stream.len() || dead {
                        break;
                    }
                    let end = (pos + k).min(stream.len());
                    buf.extend_from_slice(&stream[pos..end]);
                    pos = end;
                    done = j;
                    loop {
                        let r = guard(|| codec.decode(&mut buf));
                        match r {
                            Ok(Ok(Some(m))) => {
                                outs.push(digest(&reencode(&mut codec, m)));
                                at.push(j);
                            }
                            Ok(Ok(None)) => break,
                            Ok(Err(e)) => {
                                err = true;
                                dead = true;
                                rec["status"] = json!(format!("{}", e));
                                break;
                            }
                            Err(site) => {
                                dead = true;
                                rec["fail"] = json!("panic");
                                rec["site"] = json!(site_sig(&site));
                                break;
                            }
                        }
                    }
                }
                rec["k"] = json!(k);
                rec["n"] = json!(done);
                rec["out"] = json!(outs);
                rec["at"] = json!(at);
                rec["err"] = json!(err);
                rec["buf"] = json!(buf.len());
            }
            "Eof" => {
                // whatever the schedule left unread arrives in one last read (a complete schedule leaves nothing)
                let mut outs: Vec<String> = Vec::new();
                let mut err = false;
                if !dead {
                    if pos < stream.len() {
                        buf.extend_from_slice(&stream[pos..]);
                        pos = stream.len();
                    }
                    loop {
                        let r = guard(|| codec.decode_eof(&mut buf));
                        match r {
                            Ok(Ok(Some(m))) => outs.push(digest(&reencode(&mut codec, m))),
                            Ok(Ok(None)) => break,
                            Ok(Err(e)) => {
                                err = true;
                                rec["status"] = json!(format!("{}", e));
                                break;
                            }
                            Err(site) => {
                                rec["fail"] = json!("panic");
                                rec["site"] = json!(site_sig(&site));
                                break;
                            }
                        }
                    }
                }
                rec["out"] = json!(outs);
                rec["err"] = json!(err);
                rec["buf"] = json!(buf.len());
            }
            _ => {}
        }
        out.push(rec);
    }
}
