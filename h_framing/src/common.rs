//! Shared helpers of the `framing` group: digests, policy-None / signed secure channel pairs, message builders.
use opcua::core::comms::chunker::Chunker;
use opcua::core::comms::message_chunk::{MessageChunk, MessageChunkHeader, MessageChunkType, MessageIsFinalType};
use opcua::core::comms::secure_channel::{Role, SecureChannel};
use opcua::core::comms::tcp_types::{AcknowledgeMessage, ErrorMessage, HelloMessage, MessageHeader, MessageType};
use opcua::core::supported_message::SupportedMessage;
use opcua::crypto::{CertificateStore, SecurityPolicy};
use opcua::sync::RwLock;
use opcua::types::*;
use std::path::PathBuf;
use std::sync::Arc;

pub const CHUNK_SIZE: usize = 8196; // the smallest send buffer / chunk size the stack accepts

pub fn out_dir() -> String {
    std::env::var("VERIF_OUT").unwrap_or_else(|_| "/verif/out".into())
}

/// identity of a byte string (sha1, hex)
pub fn digest(b: &[u8]) -> String {
    let d = openssl::sha::sha1(b);
    d.iter().map(|x| format!("{:02x}", x)).collect()
}

pub fn store() -> Arc<RwLock<CertificateStore>> {
    Arc::new(RwLock::new(CertificateStore::new(&PathBuf::from(format!("{}/pki-framing", out_dir())))))
}

/// A client-role and a server-role channel that agree on id, token, policy and (for a signed policy) keys.
pub fn channel_pair(policy: &str, channel_id: u32) -> (SecureChannel, SecureChannel) {
    let st = store();
    let mut c = SecureChannel::new(st.clone(), Role::Client, DecodingOptions::default());
    let mut s = SecureChannel::new(st, Role::Server, DecodingOptions::default());
    for ch in [&mut c, &mut s] {
        ch.set_secure_channel_id(channel_id);
        ch.set_token_id(1);
    }
    if policy != "None" {
        let (p, mode) = match policy {
            "Basic256Sha256-Sign" => (SecurityPolicy::Basic256Sha256, MessageSecurityMode::Sign),
            "Aes128Sha256RsaOaep-SignAndEncrypt" => (SecurityPolicy::Aes128Sha256RsaOaep, MessageSecurityMode::SignAndEncrypt),
            _ => panic!("unknown policy {}", policy),
        };
        let n1: Vec<u8> = (0..32u8).collect();
        let n2: Vec<u8> = (100..132u8).collect();
        for ch in [&mut c, &mut s] {
            ch.set_security_policy(p);
            ch.set_security_mode(mode);
        }
        c.set_local_nonce(&n1);
        c.set_remote_nonce(&n2);
        s.set_local_nonce(&n2);
        s.set_remote_nonce(&n1);
        c.derive_keys();
        s.derive_keys();
    }
    (c, s)
}

fn header(handle: u32) -> RequestHeader {
    RequestHeader {
        authentication_token: NodeId::null(),
        timestamp: DateTime::null(),
        request_handle: handle,
        return_diagnostics: DiagnosticBits::empty(),
        audit_entry_id: UAString::null(),
        timeout_hint: 0,
        additional_header: ExtensionObject::null(),
    }
}

/// A WriteRequest whose size is controlled by a ByteString payload of `payload` bytes.
pub fn write_request(payload: usize, handle: u32) -> SupportedMessage {
    let bytes: Vec<u8> = (0..payload).map(|i| (i * 7 + 3) as u8).collect();
    WriteRequest {
        request_header: header(handle),
        nodes_to_write: Some(vec![WriteValue {
            node_id: NodeId::new(2, "v1"),
            attribute_id: 13,
            index_range: UAString::null(),
            value: DataValue::value_only(ByteString::from(bytes)),
        }]),
    }
    .into()
}

/// A WriteResponse of a comparable size (the server side message of a history).
pub fn write_response(payload: usize, handle: u32) -> SupportedMessage {
    let mut rh = ResponseHeader::null();
    rh.request_handle = handle;
    rh.timestamp = DateTime::null();
    // the size is carried by the string table of the response header
    rh.string_table = Some(vec![UAString::from("x".repeat(payload))]);
    WriteResponse { response_header: rh, results: Some(vec![StatusCode::Good]), diagnostic_infos: None }.into()
}

pub fn read_request(handle: u32) -> SupportedMessage {
    ReadRequest {
        request_header: header(handle),
        max_age: 0.0,
        timestamps_to_return: TimestampsToReturn::Neither,
        nodes_to_read: Some(vec![ReadValueId { node_id: NodeId::new(2, "v1"), attribute_id: 13, ..Default::default() }]),
    }
    .into()
}

fn open_request() -> SupportedMessage {
    OpenSecureChannelRequest {
        request_header: header(1),
        client_protocol_version: 0,
        request_type: SecurityTokenRequestType::Issue,
        security_mode: MessageSecurityMode::None,
        client_nonce: ByteString::from(vec![0u8; 1]),
        requested_lifetime: 60000,
    }
    .into()
}

fn close_request() -> SupportedMessage {
    CloseSecureChannelRequest { request_header: header(2) }.into()
}

fn raw_header(kind: &[u8; 4], size: u32) -> Vec<u8> {
    let mut v = kind.to_vec();
    v.extend_from_slice(&size.to_le_bytes());
    v
}

/// The frames of the catalog, built with the real encoders. `declared` is used by the oversize frames only.
/// Returns the frames (a multi chunk message gives several).
pub fn build_frames(name: &str, declared: u32, len: usize) -> Vec<Vec<u8>> {
    let (ch, _) = channel_pair("None", 7);
    let enc = |m: &SupportedMessage, chunk: usize| -> Vec<Vec<u8>> {
        Chunker::encode(1, 1001, 0, chunk, &ch, m).expect("encode").into_iter().map(|c| c.data).collect()
    };
    match name {
        "hel" => vec![HelloMessage::new("opc.tcp://127.0.0.1:4855/", 65535, 65535, 327675, 5).encode_to_vec()],
        "hel0" => vec![HelloMessage::new("", 8196, 8196, 0, 0).encode_to_vec()],
        "ack" => {
            let mut a = AcknowledgeMessage {
                message_header: MessageHeader::new(MessageType::Acknowledge),
                protocol_version: 0,
                receive_buffer_size: 65535,
                send_buffer_size: 65535,
                max_message_size: 327675,
                max_chunk_count: 5,
            };
            a.message_header.message_size = a.byte_len() as u32;
            vec![a.encode_to_vec()]
        }
        "err" => vec![ErrorMessage::from_status_code(StatusCode::BadTcpMessageTooLarge).encode_to_vec()],
        "err0" => {
            let mut e = ErrorMessage {
                message_header: MessageHeader::new(MessageType::Error),
                error: StatusCode::BadTimeout.bits(),
                reason: UAString::null(),
            };
            e.message_header.message_size = e.byte_len() as u32;
            vec![e.encode_to_vec()]
        }
        "opn" => enc(&open_request(), 0),
        "clo" => enc(&close_request(), 0),
        "msg" => enc(&read_request(5), 0),
        "abort" => vec![MessageChunk::new(9, 1001, MessageChunkType::Message, MessageIsFinalType::FinalError, &ch, &[]).unwrap().data],
        "tiny12" | "tiny13" => {
            // a chunk that is nothing but its 12 byte header (+ 1 byte): the smallest frame the codec can be given
            let n = if name == "tiny12" { 12 } else { 13 };
            let h = MessageChunkHeader {
                message_type: MessageChunkType::Message,
                is_final: MessageIsFinalType::Final,
                message_size: n,
                secure_channel_id: 7,
            };
            let mut v = h.encode_to_vec();
            v.resize(n as usize, 0x5a);
            vec![v]
        }
        "bigmsg" | "bigerr" | "bighel" => {
            let kind: &[u8; 4] = match name {
                "bigmsg" => b"MSGF",
                "bigerr" => b"ERRF",
                _ => b"HELF",
            };
            let mut v = raw_header(kind, declared);
            v.resize(len.max(8), 0x11);
            vec![v]
        }
        _ => {
            if let Some(p) = name.strip_prefix("w:") {
                let p: usize = p.parse().expect("payload");
                enc(&write_request(p, 9), CHUNK_SIZE)
            } else {
                panic!("unknown frame {}", name)
            }
        }
    }
}

pub fn kind_of(bytes: &[u8]) -> String {
    String::from_utf8_lossy(&bytes[0..3.min(bytes.len())]).to_string()
}

pub fn declared_size(bytes: &[u8]) -> u32 {
    if bytes.len() >= 8 {
        u32::from_le_bytes([bytes[4], bytes[5], bytes[6], bytes[7]])
    } else {
        0
    }
}
