//! Engine `seqnum` (C12): replays histories generated from SeqNum.tla on the real objects of one secure channel:
//!   senders    the client `SendBuffer` (inside the facade `VerifTransport`: `Request::send` ->
//!              `TransportState::wait_for_outgoing_message` -> `SendBuffer::{next_request_id, write, encode_next_chunk,
//!              read_into_async}`) and the server `MessageWriter::{write, bytes_to_write}`; the bytes they emit are cut
//!              into frames by the real `TcpCodec` and the headers parsed back with `verify_and_remove_security` (a helper
//!              channel of the receiving role) and `MessageChunk::chunk_info`;
//!              (`Responder = "peer"`: responses split by `Chunker::encode` with a chunk size, a server that chunks)
//!   receivers  the server `TcpTransport` (hook `verif_chunk` = `process_chunk`), the client `TransportState`
//!              (`handle_incoming_message`), and `Chunker::{validate_chunks, decode}` called directly ("fn": fed with
//!              the same chunks as the server transport, keeping `last + 1` as both transports do).
//! Both senders have max_chunk_count 3 and max_message_size 40000: a message of size class 4 / 5 is refused by its sender
//! (nothing emitted) and the history goes on with the same sender objects.
//! The adversary acts on the harness's copy of the wire (real chunk bytes); forged headers (policy None only) are
//! made with `MessageChunk::new`.
//!
//! case = {"case": id, "cfg": {"policy": "None"|"Basic256Sha256-SignAndEncrypt"|"Basic256Sha256-Sign", "responder": "writer"|"peer"},
//!         "steps": [...]}
use crate::common::*;
use crate::e_sendbuf::{sock_once, Answer, Sink, RT};
use crate::srv::*;
use crate::util::*;
use crate::Obs;
use bytes::BytesMut;
use opcua::client::verif::{VerifRequestFuture, VerifTransport};
use opcua::core::comms::chunker::Chunker;
use opcua::core::comms::message_chunk::{MessageChunk, MessageChunkType, MessageIsFinalType};
use opcua::core::comms::message_writer::MessageWriter;
use opcua::core::comms::secure_channel::{Role, SecureChannel};
use opcua::core::comms::tcp_codec::{Message, TcpCodec};
use opcua::core::comms::tcp_types::HelloMessage;
use opcua::crypto::SecurityPolicy;
use opcua::sync::RwLock;
use opcua::types::*;
use serde_json::{json, Value};
use std::collections::{BTreeSet, HashMap};
use std::future::Future;
use std::sync::Arc;
use std::task::{Context, Poll};
use std::time::Duration;
use tokio_util::codec::Decoder;

pub const CHAN: u32 = 7;
pub const CHAN2: u32 = 9;
/// payload of a message of size class n (index n): 1..3 chunks; class 4 needs 4 chunks (one more than MAX_CHUNKS: refused by
/// the send buffer), class 5 exceeds MAX_MESSAGE (refused by Chunker::encode in either sender)
const PAYLOAD: [usize; 6] = [10, 100, 9000, 18000, 27000, 50000];
pub const MAX_CHUNKS: usize = 3; // max_chunk_count of both senders
pub const MAX_MESSAGE: usize = 40000; // max_message_size of both senders

thread_local! {
    static SRV: Srv = Srv::new();
}

fn poll_once<F: Future + Unpin>(f: &mut F) -> Poll<F::Output> {
    let w = futures::task::noop_waker();
    let mut cx = Context::from_waker(&w);
    std::pin::Pin::new(f).poll(&mut cx)
}

fn configure(ch: &mut SecureChannel, role_client: bool, policy: &str) {
    ch.set_secure_channel_id(CHAN);
    ch.set_token_id(1);
    if policy != "None" {
        let n1: Vec<u8> = (0..32u8).collect();
        let n2: Vec<u8> = (100..132u8).collect();
        ch.set_security_policy(SecurityPolicy::Basic256Sha256);
        ch.set_security_mode(if policy.ends_with("-Sign") { MessageSecurityMode::Sign } else { MessageSecurityMode::SignAndEncrypt });
        if role_client {
            ch.set_local_nonce(&n1);
            ch.set_remote_nonce(&n2);
        } else {
            ch.set_local_nonce(&n2);
            ch.set_remote_nonce(&n1);
        }
        ch.derive_keys();
    }
}

#[derive(Clone)]
struct WireChunk {
    bytes: Vec<u8>, // as on the wire (secured)
    hdr: Value,     // {req, seq, fin, chan} parsed back from the bytes
}

struct World {
    policy: String,
    responder: String,
    client_channel: Arc<RwLock<SecureChannel>>,
    t: VerifTransport,
    futs: HashMap<u32, VerifRequestFuture>,
    conn: Conn,
    server_channel: Arc<RwLock<SecureChannel>>,
    writer: MessageWriter,
    peer_seq: u32,
    fn_channel: SecureChannel,
    read_c2s: SecureChannel, // helper channels that only read the headers of emitted chunks
    read_s2c: SecureChannel,
    fn_last: u32,
    fn_pend: Vec<MessageChunk>,
    fn_open: bool,
    srv_open: bool,
    cli_open: bool,
    c2s: Vec<WireChunk>,
    s2c: Vec<WireChunk>,
    sent: Vec<(String, Vec<WireChunk>)>,
    srv_pend: Vec<Value>,
    cli_pend: HashMap<u32, Vec<Value>>,
    to_answer: BTreeSet<u32>,
    nsent: u32,
}

fn fin_name(f: MessageIsFinalType) -> &'static str {
    match f {
        MessageIsFinalType::Intermediate => "C",
        MessageIsFinalType::Final => "F",
        MessageIsFinalType::FinalError => "A",
    }
}

/// header of a chunk as it is on the wire, read as its receiver reads it: security removed with a helper channel of
/// the receiving role (a no-op for policy None), then `chunk_info`
fn parse_secured(bytes: &[u8], helper: &mut SecureChannel) -> Value {
    match helper.verify_and_remove_security(bytes) {
        Ok(c) => parse_hdr(&c.data, helper),
        Err(e) => json!({"req": 0, "seq": 0, "fin": "?", "chan": 0, "error": e.name()}),
    }
}

/// header of a clear text chunk
fn parse_hdr(bytes: &[u8], ch: &SecureChannel) -> Value {
    let c = MessageChunk { data: bytes.to_vec() };
    match c.chunk_info(ch) {
        Ok(i) => json!({"req": i.sequence_header.request_id, "seq": i.sequence_header.sequence_number,
                        "fin": fin_name(i.message_header.is_final), "chan": i.message_header.secure_channel_id}),
        Err(e) => json!({"req": 0, "seq": 0, "fin": "?", "chan": 0, "error": e.name()}),
    }
}

/// cut a byte stream into chunks with the real codec
fn frames(bytes: &[u8]) -> Vec<Vec<u8>> {
    let mut codec = TcpCodec::new(DecodingOptions::default());
    let mut buf = BytesMut::from(bytes);
    let mut out = Vec::new();
    while let Ok(Some(m)) = codec.decode(&mut buf) {
        if let Message::Chunk(c) = m {
            out.push(c.data);
        }
    }
    out
}

impl World {
    fn new(cfg: &Value) -> World {
        let policy = gets(cfg, "policy").to_string();
        let policy = if policy.is_empty() { "None".to_string() } else { policy };
        let st = store();
        let mut cc = SecureChannel::new(st.clone(), Role::Client, DecodingOptions::default());
        configure(&mut cc, true, &policy);
        let client_channel = Arc::new(RwLock::new(cc));
        let t = VerifTransport::new(client_channel.clone(), 16, 0, 16, CHUNK_SIZE, MAX_MESSAGE, MAX_CHUNKS);
        let mut conn = SRV.with(|s| s.connect());
        let _ = conn.t.verif_hello(HelloMessage::new(ENDPOINT, 65535, 65535, 0, 0));
        let server_channel = conn.t.verif_secure_channel();
        {
            let mut sc = server_channel.write();
            configure(&mut sc, false, &policy);
        }
        let mut fc = SecureChannel::new(st.clone(), Role::Server, DecodingOptions::default());
        configure(&mut fc, false, &policy);
        let mut read_c2s = SecureChannel::new(st.clone(), Role::Server, DecodingOptions::default());
        configure(&mut read_c2s, false, &policy);
        let mut read_s2c = SecureChannel::new(st, Role::Client, DecodingOptions::default());
        configure(&mut read_s2c, true, &policy);
        World {
            policy,
            responder: gets(cfg, "responder").to_string(),
            client_channel,
            t,
            futs: HashMap::new(),
            conn,
            server_channel,
            writer: MessageWriter::new(65536, MAX_MESSAGE, MAX_CHUNKS),
            peer_seq: 0,
            fn_channel: fc,
            read_c2s,
            read_s2c,
            fn_last: 0,
            fn_pend: Vec::new(),
            fn_open: true,
            srv_open: true,
            cli_open: true,
            c2s: Vec::new(),
            s2c: Vec::new(),
            sent: Vec::new(),
            srv_pend: Vec::new(),
            cli_pend: HashMap::new(),
            to_answer: BTreeSet::new(),
            nsent: 0,
        }
    }

    fn wire(&mut self, w: &str) -> &mut Vec<WireChunk> {
        if w == "c2s" {
            &mut self.c2s
        } else {
            &mut self.s2c
        }
    }

    fn client_send(&mut self, n: usize) -> Value {
        self.nsent += 1;
        let msg = write_request(PAYLOAD[n.min(5)], 100 + self.nsent);
        let mut f = self.t.request(msg, Duration::from_secs(3600), true);
        let _ = poll_once(&mut f);
        let taken = {
            let mut g = Box::pin(self.t.wait_for_outgoing_message());
            poll_once(&mut g)
        };
        let (m, id) = match taken {
            Poll::Ready(Some(x)) => x,
            _ => return json!({"ok": false, "emits": []}),
        };
        self.futs.insert(id, f);
        let ch = self.client_channel.clone();
        let ch = ch.read();
        let sb = self.t.send_buffer();
        if let Err(e) = sb.write(id, m, &ch) {
            // refused by the send buffer: nothing was queued; the buffer stays in use for the next request
            return json!({"ok": false, "emits": [], "code": e.name(), "lastseq": sb.verif_last_sent_sequence_number(),
                          "queued": sb.verif_queued_chunks().len()});
        }
        let mut sink = Sink { data: Vec::new(), answer: Answer::Accept(usize::MAX), offered: Vec::new() };
        let mut fuel = 64;
        while fuel > 0 {
            fuel -= 1;
            if sb.should_encode_chunks() {
                if sb.encode_next_chunk(&ch).is_err() {
                    break;
                }
            } else if sb.can_read() {
                if sock_once(sb, &mut sink).is_err() {
                    break;
                }
            } else {
                break;
            }
        }
        drop(ch);
        let last_sent = self.t.send_buffer().verif_last_sent_sequence_number();
        let mut chunks: Vec<WireChunk> = Vec::new();
        for b in frames(&sink.data) {
            chunks.push(WireChunk { hdr: parse_secured(&b, &mut self.read_c2s), bytes: b });
        }
        let emits: Vec<Value> = chunks.iter().map(|c| c.hdr.clone()).collect();
        self.cli_pend.insert(id, Vec::new());
        self.c2s.extend(chunks.iter().cloned());
        self.sent.push(("c2s".into(), chunks));
        json!({"ok": true, "emits": emits, "bytes": sink.data.len(), "lastseq": last_sent})
    }

    fn server_send(&mut self, n: usize) -> Value {
        let Some(r) = self.to_answer.iter().next().copied() else {
            return json!({"ok": false, "emits": []});
        };
        self.to_answer.remove(&r);
        self.nsent += 1;
        let msg = write_response(PAYLOAD[n.min(5)], 100 + self.nsent);
        let sc = self.server_channel.clone();
        let sc = sc.read();
        let datas: Vec<Vec<u8>> = if self.responder == "peer" {
            let chunks = match Chunker::encode(self.peer_seq + 1, r, MAX_MESSAGE, CHUNK_SIZE, &sc, &msg) {
                Ok(c) => c,
                Err(e) => return json!({"ok": false, "emits": [], "code": e.name()}),
            };
            self.peer_seq += chunks.len() as u32;
            chunks
                .iter()
                .map(|c| {
                    let mut dst = vec![0u8; c.data.len() + 4096];
                    let k = sc.apply_security(c, &mut dst).expect("apply_security");
                    dst.truncate(k);
                    dst
                })
                .collect()
        } else {
            if let Err(e) = self.writer.write(r, msg, &sc) {
                return json!({"ok": false, "emits": [], "code": e.name()});
            }
            frames(&self.writer.bytes_to_write())
        };
        drop(sc);
        let mut chunks: Vec<WireChunk> = Vec::new();
        for b in datas {
            chunks.push(WireChunk { hdr: parse_secured(&b, &mut self.read_s2c), bytes: b });
        }
        let emits: Vec<Value> = chunks.iter().map(|c| c.hdr.clone()).collect();
        self.s2c.extend(chunks.iter().cloned());
        self.sent.push(("s2c".into(), chunks));
        json!({"ok": true, "emits": emits})
    }

    /// rewrite the header of a clear text chunk (policy None)
    fn forge(&self, c: &WireChunk, chan: u32, req_delta: u32) -> WireChunk {
        let (fc, _) = channel_pair("None", chan);
        let chunk = MessageChunk { data: c.bytes.clone() };
        let info = chunk.chunk_info(&fc).expect("chunk info");
        let body = &c.bytes[info.body_offset..info.body_offset + info.body_length];
        let mt: MessageChunkType = info.message_header.message_type;
        let n = MessageChunk::new(
            info.sequence_header.sequence_number,
            info.sequence_header.request_id + req_delta,
            mt,
            info.message_header.is_final,
            &fc,
            body,
        )
        .expect("forge");
        WireChunk { hdr: parse_hdr(&n.data, &fc), bytes: n.data }
    }

    fn do_move(&mut self, s: &Value) -> Value {
        let kind = gets(s, "kind").to_string();
        let w = gets(s, "w").to_string();
        let len = self.wire(&w).len();
        let mut applied = true;
        match kind.as_str() {
            "Reorder" if len >= 2 => self.wire(&w).swap(0, 1),
            "Duplicate" if len >= 1 => {
                let c = self.wire(&w)[0].clone();
                self.wire(&w).insert(1, c);
            }
            "Drop" if len >= 1 => {
                self.wire(&w).remove(0);
            }
            "Foreign" if len >= 1 && self.policy == "None" => {
                let c = self.wire(&w)[0].clone();
                let f = self.forge(&c, CHAN2, 0);
                self.wire(&w)[0] = f;
            }
            "Mixed" if len >= 1 && self.policy == "None" => {
                let c = self.wire(&w)[0].clone();
                let chan = c.hdr["chan"].as_u64().unwrap_or(CHAN as u64) as u32; // keeps whatever channel id the chunk carries now
                let f = self.forge(&c, chan, 50);
                self.wire(&w)[0] = f;
            }
            "Replay" => {
                let m = geti(s, "m") as usize;
                if m >= 1 && m <= self.sent.len() && self.sent[m - 1].0 == w {
                    let copy = self.sent[m - 1].1.clone();
                    let wire = self.wire(&w);
                    for (j, c) in copy.into_iter().enumerate() {
                        wire.insert(j, c);
                    }
                } else {
                    applied = false;
                }
            }
            _ => applied = false,
        }
        let heads: Vec<Value> = self.wire(&w).iter().take(3).map(|c| c.hdr.clone()).collect();
        json!({"kind": kind, "w": w, "m": geti(s, "m"), "applied": applied, "head": heads})
    }

    /// deliver the head of c2s to the server transport and to the bare validate_chunks receiver
    fn deliver_srv(&mut self, out: &mut Vec<Value>) {
        if self.c2s.is_empty() || !self.srv_open {
            out.push(json!({"ev": "Deliver", "rcv": "server", "res": "closed", "chunk": {"req": 0, "seq": 0, "fin": "?", "chan": 0}}));
            return;
        }
        let c = self.c2s.remove(0);
        let fin = c.hdr["fin"].as_str().unwrap_or("?").to_string();
        // the real server transport
        let (r, outs) = self.conn.t.verif_chunk(MessageChunk { data: c.bytes.clone() });
        let last = self.conn.t.verif_last_received_sequence_number();
        let (npend, _) = self.conn.t.verif_pending();
        if r.is_err() {
            self.srv_open = false; // the reader task ends the connection
        }
        let code = match &r {
            Ok(_) => "Good".to_string(),
            Err(e) => e.name().to_string(),
        };
        match fin.as_str() {
            "F" => {
                let mut chunks = std::mem::take(&mut self.srv_pend);
                chunks.push(c.hdr.clone());
                if r.is_ok() {
                    let id = outs.first().map(|o| o.0).unwrap_or_else(|| chunks[0]["req"].as_u64().unwrap_or(0) as u32);
                    self.to_answer.insert(id);
                }
                out.push(json!({"ev": "Present", "rcv": "server", "chunks": chunks, "acc": r.is_ok(), "code": code, "last": last,
                                "responses": outs.len(), "npend": npend}));
            }
            "A" => {
                self.srv_pend.clear();
                out.push(json!({"ev": "Deliver", "rcv": "server", "chunk": c.hdr, "res": if r.is_ok() { "aborted" } else { "rejected" }, "code": code, "npend": npend}));
            }
            _ => {
                self.srv_pend.push(c.hdr.clone());
                out.push(json!({"ev": "Deliver", "rcv": "server", "chunk": c.hdr, "res": if r.is_ok() { "stored" } else { "rejected" }, "code": code, "npend": npend}));
            }
        }
        // Chunker::validate_chunks / decode called directly, the way both transports call them
        if self.fn_open {
            let plain = self.fn_channel.verify_and_remove_security(&c.bytes);
            match plain {
                Err(e) => {
                    self.fn_open = false;
                    if fin == "F" {
                        let mut chunks: Vec<Value> = self.fn_pend.iter().map(|p| parse_hdr(&p.data, &self.fn_channel)).collect();
                        chunks.push(c.hdr.clone());
                        out.push(json!({"ev": "Present", "rcv": "fn", "aux": true, "chunks": chunks, "acc": false, "code": e.name(), "last": self.fn_last}));
                    }
                }
                Ok(p) => {
                    if fin == "A" {
                        self.fn_pend.clear();
                    } else {
                        self.fn_pend.push(p);
                        if fin == "F" {
                            let chunks: Vec<MessageChunk> = std::mem::take(&mut self.fn_pend);
                            let hdrs: Vec<Value> = chunks.iter().map(|p| parse_hdr(&p.data, &self.fn_channel)).collect();
                            let v = Chunker::validate_chunks(self.fn_last + 1, &self.fn_channel, &chunks);
                            let (acc, code) = match v {
                                Ok(l) => {
                                    self.fn_last = l;
                                    match Chunker::decode(&chunks, &self.fn_channel, None) {
                                        Ok(_) => (true, "Good".to_string()),
                                        Err(e) => (false, format!("decode:{}", e.name())),
                                    }
                                }
                                Err(e) => (false, e.name().to_string()),
                            };
                            if !acc {
                                self.fn_open = false;
                            }
                            out.push(json!({"ev": "Present", "rcv": "fn", "aux": true, "chunks": hdrs, "acc": acc, "code": code, "last": self.fn_last}));
                        }
                    }
                }
            }
        }
    }

    fn deliver_cli(&mut self, out: &mut Vec<Value>) {
        if self.s2c.is_empty() || !self.cli_open {
            out.push(json!({"ev": "Deliver", "rcv": "client", "res": "closed", "chunk": {"req": 0, "seq": 0, "fin": "?", "chan": 0}}));
            return;
        }
        let c = self.s2c.remove(0);
        let fin = c.hdr["fin"].as_str().unwrap_or("?").to_string();
        let req = c.hdr["req"].as_u64().unwrap_or(0) as u32;
        let pending = self.t.pending().iter().any(|p| p.0 == req);
        let r = self.t.handle_incoming_message(Message::Chunk(MessageChunk { data: c.bytes.clone() }));
        let last = self.t.last_received_sequence_number();
        let code = match &r {
            Ok(_) => "Good".to_string(),
            Err(e) => e.name().to_string(),
        };
        if r.is_err() {
            // TcpTransport::poll closes the transport with the status of a failed incoming message
            self.cli_open = false;
        }
        if !pending {
            out.push(json!({"ev": "Deliver", "rcv": "client", "chunk": c.hdr, "res": if r.is_ok() { "ignored" } else { "rejected" }, "code": code}));
            return;
        }
        match fin.as_str() {
            "F" => {
                let mut chunks = self.cli_pend.remove(&req).unwrap_or_default();
                chunks.push(c.hdr.clone());
                // the request's future tells whether the response was handed to the caller
                let mut got = "pending".to_string();
                if let Some(mut f) = self.futs.remove(&req) {
                    match poll_once(&mut f) {
                        Poll::Ready(Ok(Some(_))) => got = "response".into(),
                        Poll::Ready(Ok(None)) => got = "none".into(),
                        Poll::Ready(Err(e)) => got = e.name().to_string(),
                        Poll::Pending => {
                            self.futs.insert(req, f);
                        }
                    }
                }
                let acc = r.is_ok() && got == "response";
                out.push(json!({"ev": "Present", "rcv": "client", "chunks": chunks, "acc": acc, "code": code, "last": last, "caller": got}));
            }
            "A" => {
                self.cli_pend.remove(&req);
                out.push(json!({"ev": "Deliver", "rcv": "client", "chunk": c.hdr, "res": if r.is_ok() { "aborted" } else { "rejected" }, "code": code}));
            }
            _ => {
                self.cli_pend.entry(req).or_default().push(c.hdr.clone());
                out.push(json!({"ev": "Deliver", "rcv": "client", "chunk": c.hdr, "res": if r.is_ok() { "stored" } else { "rejected" }, "code": code}));
            }
        }
    }
}

pub fn run_case(case: &Value, out: &mut Obs) {
    let cid = case.get("case").cloned().unwrap_or(Value::Null);
    RT.with(|rt| {
        let _g = rt.enter();
        let mut w = World::new(&case["cfg"]);
        let empty = vec![];
        let steps = case.get("steps").and_then(|s| s.as_array()).unwrap_or(&empty);
        for (i, s) in steps.iter().enumerate() {
            let r = guard(|| {
                let mut recs: Vec<Value> = Vec::new();
                match gets(s, "ev") {
                    "Config" => {
                        let seq0 = w.t.send_buffer().verif_last_sent_sequence_number();
                        recs.push(json!({"ev": "Config", "chan": CHAN, "seq0": seq0, "policy": w.policy, "responder": w.responder}));
                    }
                    "Send" => {
                        let n = geti(s, "n").max(1) as usize;
                        let side = gets(s, "side");
                        let mut o = if side == "client" { w.client_send(n) } else { w.server_send(n) };
                        o["ev"] = json!("Send");
                        o["side"] = json!(side);
                        o["n"] = json!(n);
                        recs.push(o);
                    }
                    "Move" => {
                        let mut o = w.do_move(s);
                        o["ev"] = json!("Move");
                        recs.push(o);
                    }
                    "Deliver" | "Present" => {
                        if gets(s, "rcv") == "server" {
                            w.deliver_srv(&mut recs)
                        } else {
                            w.deliver_cli(&mut recs)
                        }
                    }
                    _ => {}
                }
                recs
            });
            match r {
                Ok(recs) => {
                    for mut o in recs {
                        o["case"] = cid.clone();
                        o["i"] = json!(i + 1);
                        o["fail"] = json!("none");
                        o["site"] = json!("");
                        out.push(o);
                    }
                }
                Err(site) => {
                    out.push(json!({"case": cid, "i": i + 1, "ev": gets(s, "ev"), "fail": "panic", "site": site_sig(&site)}));
                    break;
                }
            }
        }
    });
}
