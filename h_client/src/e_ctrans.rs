//! Engine `ctrans` (C35): replays behaviours of ClientTransport.tla on the real client transport objects
//! (`TransportState`, `SendBuffer`, `Request::send` / `send_no_response`) without a socket.
//!
//! case = {"case": id, "cfg": {QueueCap, MaxInflight, MaxPending}, "steps": [{ev, r, cb, cls, h, id, kind, ...}, ...]}
//! One observation record per step: the step's arguments plus what the real code did
//! (took/id/armed for Poll, hit for Expire/Chunk, closed, out = results of the request futures that became ready, st).
use crate::util::*;
use crate::Obs;
use opcua::client::verif::{VerifRequestFuture, VerifTransport};
use opcua::core::comms::chunker::Chunker;
use opcua::core::comms::message_chunk::{MessageChunk, MessageChunkType, MessageIsFinalType};
use opcua::core::comms::secure_channel::{Role, SecureChannel};
use opcua::core::comms::tcp_codec::Message;
use opcua::core::supported_message::SupportedMessage;
use opcua::crypto::CertificateStore;
use opcua::sync::RwLock;
use opcua::types::*;
use serde_json::{json, Value};
use std::collections::HashMap;
use std::future::Future;
use std::path::PathBuf;
use std::sync::Arc;
use std::task::{Context, Poll};
use std::time::{Duration, Instant};

pub const PIECE: usize = 16; // body bytes carried by an intermediate chunk

thread_local! {
    pub static RT: tokio::runtime::Runtime = tokio::runtime::Builder::new_current_thread().enable_all().build().unwrap();
}

pub fn out_dir() -> String {
    std::env::var("VERIF_OUT").unwrap_or_else(|_| "/verif/out".into())
}

/// poll a future once with a waker that does nothing
pub fn poll_once<F: Future + Unpin>(f: &mut F) -> Poll<F::Output> {
    let w = futures::task::noop_waker();
    let mut cx = Context::from_waker(&w);
    std::pin::Pin::new(f).poll(&mut cx)
}

struct World {
    t: VerifTransport,
    server_channel: SecureChannel,
    futs: HashMap<i64, VerifRequestFuture>,
    order: Vec<i64>,
    /// what the peer learnt from the requests it received: request id -> request handle
    seen: HashMap<u32, u32>,
    inter: HashMap<u32, usize>,
    seq: u32,
}

fn status_of(name: &str) -> StatusCode {
    match name {
        "Good" => StatusCode::Good,
        "BadCommunicationError" => StatusCode::BadCommunicationError,
        "BadConnectionClosed" => StatusCode::BadConnectionClosed,
        "BadSecureChannelClosed" => StatusCode::BadSecureChannelClosed,
        "BadTcpInternalError" => StatusCode::BadTcpInternalError,
        _ => StatusCode::BadUnexpectedError,
    }
}

impl World {
    fn new(cfg: &Value) -> World {
        let store = Arc::new(RwLock::new(CertificateStore::new(&PathBuf::from(format!("{}/pki-client", out_dir())))));
        let client_channel = Arc::new(RwLock::new(SecureChannel::new(store.clone(), Role::Client, DecodingOptions::default())));
        let server_channel = SecureChannel::new(store, Role::Server, DecodingOptions::default());
        let t = VerifTransport::new(
            client_channel,
            geti(cfg, "QueueCap").max(1) as usize,
            geti(cfg, "MaxPending") as usize,
            geti(cfg, "MaxInflight") as usize,
            65536,
            0,
            0,
        );
        World { t, server_channel, futs: HashMap::new(), order: Vec::new(), seen: HashMap::new(), inter: HashMap::new(), seq: 0 }
    }

    /// body of the response the peer sends for request id `id` (node id + encoded message, as Chunker::encode lays it out)
    fn response_body(&self, id: u32) -> (Vec<u8>, u32) {
        let handle = *self.seen.get(&id).unwrap_or(&999);
        let mut rh = ResponseHeader::null();
        rh.request_handle = handle;
        rh.timestamp = DateTime::now();
        let resp = ReadResponse {
            response_header: rh,
            results: Some(vec![DataValue::new_now(ByteString::from(vec![0xA5u8; 200]))]),
            diagnostic_infos: None,
        };
        let msg: SupportedMessage = resp.into();
        let chunks = Chunker::encode(1, id, 0, 0, &self.server_channel, &msg).expect("encode response");
        let info = chunks[0].chunk_info(&self.server_channel).expect("chunk info");
        (chunks[0].data[info.body_offset..info.body_offset + info.body_length].to_vec(), handle)
    }

    fn proj(&self) -> Value {
        let pend: Vec<Value> = self.t.pending().iter().map(|(id, n, e)| json!([*id as i64 - 1000, n, e])).collect();
        json!({"pend": pend, "last": self.t.last_received_sequence_number(), "ql": self.t.queued()})
    }

    /// poll every request future that is still running, in request order
    fn collect(&mut self) -> Vec<Value> {
        let mut out = Vec::new();
        let mut done = Vec::new();
        for r in &self.order {
            if let Some(f) = self.futs.get_mut(r) {
                if let Poll::Ready(res) = poll_once(f) {
                    done.push(*r);
                    out.push(match res {
                        Ok(Some(m)) => json!({"r": r, "k": "resp", "h": m.response_header().request_handle}),
                        Ok(None) => json!({"r": r, "k": "sent", "h": 0}),
                        Err(s) => json!({"r": r, "k": s.name(), "h": 0}),
                    });
                }
            }
        }
        for r in done {
            self.futs.remove(&r);
        }
        out
    }
}

/// returns the fields of the observation that come from the real code
fn step(w: &mut World, s: &Value) -> Value {
    let mut o = json!({"took": 0, "id": geti(s, "id"), "hit": false, "closed": "none", "h": geti(s, "h"), "armed": 0});
    match gets(s, "ev") {
        "Submit" => {
            let r = geti(s, "r");
            let mut hdr = RequestHeader::dummy();
            hdr.request_handle = geti(s, "h") as u32;
            let req = ReadRequest { request_header: hdr, max_age: 0.0, timestamps_to_return: TimestampsToReturn::Neither, nodes_to_read: None };
            // timeout classes: far longer than a case lasts, and far enough apart that every "short" deadline is before every "long" one
            let timeout = if gets(s, "cls") == "short" { Duration::from_secs(1000) } else { Duration::from_secs(3000) };
            let f = w.t.request(req.into(), timeout, getb(s, "cb"));
            w.futs.insert(r, f);
            w.order.push(r);
        }
        "Poll" => {
            let got = {
                let mut f = Box::pin(w.t.wait_for_outgoing_message());
                poll_once(&mut f)
            };
            if let Poll::Ready(Some((msg, id))) = got {
                let h = msg.request_header().request_handle;
                w.seen.insert(id, h);
                o["took"] = json!(h as i64 - 100);
                o["id"] = json!(id as i64 - 1000);
            } else {
                o["id"] = json!(0);
            }
            // what the transport's timer is armed for now: the real next_timeout, as wait_for_outgoing_message calls it
            // before it sleeps, matched against the deadlines of the pending requests
            if let Some(t) = w.t.next_timeout() {
                if let Some((id, _)) = w.t.deadlines().iter().find(|(_, d)| *d == t) {
                    o["armed"] = json!(*id as i64 - 1000);
                } else {
                    o["armed"] = json!(-1);
                }
            }
        }
        "Expire" => {
            let id = (1000 + geti(s, "id")) as u32;
            let hit = w.t.set_deadline(id, Instant::now() - Duration::from_secs(1));
            o["hit"] = json!(hit);
        }
        "Chunk" => {
            let id = (1000 + geti(s, "id")) as u32;
            let (body, handle) = w.response_body(id);
            o["h"] = json!(handle);
            o["hit"] = json!(w.t.pending().iter().any(|p| p.0 == id));
            let n = *w.inter.get(&id).unwrap_or(&0);
            let from = (n * PIECE).min(body.len());
            let (is_final, data) = match gets(s, "kind") {
                "inter" => {
                    w.inter.insert(id, n + 1);
                    (MessageIsFinalType::Intermediate, &body[from..(from + PIECE).min(body.len())])
                }
                "abort" => (MessageIsFinalType::FinalError, &body[0..0]),
                _ => (MessageIsFinalType::Final, &body[from..]),
            };
            w.seq += 1;
            let chunk = MessageChunk::new(w.seq, id, MessageChunkType::Message, is_final, &w.server_channel, data).expect("chunk");
            if let Err(e) = w.t.handle_incoming_message(Message::Chunk(chunk)) {
                // TcpTransport::poll: an error from the incoming message closes the transport with that status
                let mut f = Box::pin(w.t.close(e));
                match poll_once(&mut f) {
                    Poll::Ready(_) => o["closed"] = json!(e.name()),
                    Poll::Pending => panic!("close did not finish"),
                }
            }
        }
        "Close" => {
            let st = status_of(gets(s, "kind"));
            let mut f = Box::pin(w.t.close(st));
            match poll_once(&mut f) {
                Poll::Ready(_) => o["closed"] = json!(gets(s, "kind")),
                Poll::Pending => panic!("close did not finish"),
            }
        }
        _ => {}
    }
    o
}

pub fn run_case(case: &Value, out: &mut Obs) {
    let cid = case.get("case").cloned().unwrap_or(Value::Null);
    RT.with(|rt| {
        let _g = rt.enter();
        let mut w = World::new(&case["cfg"]);
        let empty = vec![];
        let steps = case.get("steps").and_then(|s| s.as_array()).unwrap_or(&empty);
        for (i, s) in steps.iter().enumerate() {
            let r = guard(|| {
                let o = step(&mut w, s);
                let outs = w.collect();
                (o, outs, w.proj())
            });
            let mut rec = s.clone();
            let obj = rec.as_object_mut().unwrap();
            obj.insert("case".into(), cid.clone());
            obj.insert("i".into(), json!(i + 1));
            match r {
                Ok((o, outs, st)) => {
                    for (k, v) in o.as_object().unwrap() {
                        obj.insert(k.clone(), v.clone());
                    }
                    obj.insert("out".into(), json!(outs));
                    obj.insert("st".into(), st);
                    obj.insert("fail".into(), json!("none"));
                    obj.insert("site".into(), json!(""));
                    out.push(rec);
                }
                Err(site) => {
                    obj.insert("out".into(), json!([]));
                    obj.insert("fail".into(), json!("panic"));
                    obj.insert("site".into(), json!(site_sig(&site)));
                    out.push(rec);
                    break;
                }
            }
        }
    });
}
