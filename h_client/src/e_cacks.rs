//! Engine `cacks` (C36): replays behaviours of ClientAcks.tla on a real client `Session`
//! (real `Session::publish`, real `SubscriptionState`), with the harness sitting where the transport
//! normally takes the requests from the session's request queue.
//!
//! case = {"case": id, "cfg": {}, "steps": [{ev, req, sub, seq, kind, acks, res, st}, ...]}
//! One observation record per step: the step's arguments with `acks` (the acknowledgements inside the
//! PublishRequest that left the session), `res` (how the publish call ended) and `st` (the acknowledgements the
//! session holds afterwards) taken from the real code.
use crate::e_ctrans::{out_dir, poll_once, RT};
use crate::util::*;
use crate::Obs;
use opcua::client::verif::VerifRequests;
use opcua::client::{Client, ClientBuilder, DataChangeCallback, Session, Subscription};
use opcua::core::supported_message::SupportedMessage;
use opcua::types::*;
use serde_json::{json, Value};
use std::collections::HashMap;
use std::future::Future;
use std::pin::Pin;
use std::sync::Arc;
use std::task::Poll;
use std::time::Duration;

thread_local! {
    static CLIENT: std::cell::RefCell<Client> = std::cell::RefCell::new(
        ClientBuilder::new()
            .application_name("verif client")
            .application_uri("urn:verif-client")
            .create_sample_keypair(false)
            .trust_server_certs(true)
            .pki_dir(format!("{}/pki-client", out_dir()))
            .session_retry_limit(0)
            .client()
            .expect("client config valid"));
}

type PublishFuture = Pin<Box<dyn Future<Output = Result<bool, StatusCode>>>>;
type Callback = tokio::sync::oneshot::Sender<Result<SupportedMessage, StatusCode>>;

struct World {
    session: Arc<Session>,
    queue: Option<VerifRequests>,
    old_queues: Vec<VerifRequests>,
    futs: HashMap<i64, PublishFuture>,
    callbacks: HashMap<i64, (Callback, RequestHeader)>,
}

impl World {
    fn st(&self) -> Value {
        let s = self.session.subscription_state.lock();
        json!(s.verif_acknowledgements().iter().map(|(a, b)| json!([a, b])).collect::<Vec<_>>())
    }
}

fn response_header(h: &RequestHeader, status: StatusCode) -> ResponseHeader {
    let mut r = ResponseHeader::new_good(h);
    r.service_result = status;
    r
}

/// returns (acks, res)
fn step(w: &mut World, s: &Value) -> (Value, String) {
    let req = geti(s, "req");
    match gets(s, "ev") {
        "Send" => {
            let sess = w.session.clone();
            let mut f: PublishFuture = Box::pin(async move { sess.verif_publish().await });
            let first = poll_once(&mut f);
            let sent = w.queue.as_mut().and_then(|q| q.try_next());
            match (first, sent) {
                (Poll::Pending, Some(o)) => {
                    let (acks, hdr) = match &o.request {
                        SupportedMessage::PublishRequest(p) => (
                            p.subscription_acknowledgements
                                .clone()
                                .unwrap_or_default()
                                .iter()
                                .map(|a| json!([a.subscription_id, a.sequence_number]))
                                .collect::<Vec<_>>(),
                            p.request_header.clone(),
                        ),
                        _ => panic!("publish sent something that is not a PublishRequest"),
                    };
                    w.callbacks.insert(req, (o.callback.expect("publish expects a response"), hdr));
                    w.futs.insert(req, f);
                    (json!(acks), "sent".into())
                }
                (Poll::Ready(r), None) => (json!([]), match r {
                    Ok(_) => "Ok".into(),
                    Err(e) => e.name().to_string(),
                }),
                (Poll::Pending, None) => panic!("publish neither sent a request nor returned"),
                (Poll::Ready(_), Some(_)) => panic!("publish returned although its request is unanswered"),
            }
        }
        "Ok" | "Fail" => {
            let (cb, hdr) = w.callbacks.remove(&req).expect("request in flight");
            if gets(s, "ev") == "Ok" {
                let seq = geti(s, "seq") as u32;
                let now = DateTime::now();
                let nm = match gets(s, "kind") {
                    "data" => NotificationMessage::data_change(
                        seq,
                        now,
                        vec![MonitoredItemNotification { client_handle: 1, value: DataValue::new_now(seq as i32) }],
                        vec![],
                    ),
                    "status" => NotificationMessage::status_change(seq, now, StatusCode::GoodSubscriptionTransferred),
                    _ => NotificationMessage::keep_alive(seq, now),
                };
                let resp = PublishResponse {
                    response_header: response_header(&hdr, StatusCode::Good),
                    subscription_id: geti(s, "sub") as u32,
                    available_sequence_numbers: None,
                    more_notifications: false,
                    notification_message: nm,
                    results: None,
                    diagnostic_infos: None,
                };
                let _ = cb.send(Ok(resp.into()));
            } else {
                match gets(s, "kind") {
                    "timeout" => {
                        let _ = cb.send(Err(StatusCode::BadTimeout));
                    }
                    "fault" => {
                        let f = ServiceFault { response_header: response_header(&hdr, StatusCode::BadTooManyPublishRequests) };
                        let _ = cb.send(Ok(f.into()));
                    }
                    "unexpected" => {
                        let r = ReadResponse { response_header: response_header(&hdr, StatusCode::Good), results: None, diagnostic_infos: None };
                        let _ = cb.send(Ok(r.into()));
                    }
                    _ => drop(cb),
                }
            }
            let mut f = w.futs.remove(&req).expect("publish future");
            match poll_once(&mut f) {
                Poll::Ready(Ok(_)) => (json!([]), "Ok".into()),
                Poll::Ready(Err(e)) => (json!([]), e.name().to_string()),
                Poll::Pending => panic!("publish did not return after its response"),
            }
        }
        "AddSub" => {
            let id = geti(s, "sub") as u32;
            let sub = Subscription::new(id, Duration::from_secs(1), 30, 10, 0, 0, true, Box::new(DataChangeCallback::new(|_, _| {})));
            w.session.subscription_state.lock().verif_add_subscription(sub);
            (json!([]), "".into())
        }
        "DelSub" => {
            w.session.subscription_state.lock().verif_delete_subscription(geti(s, "sub") as u32);
            (json!([]), "".into())
        }
        "Link" => {
            match gets(s, "kind") {
                "up" => {
                    if let Some(q) = w.queue.take() {
                        w.old_queues.push(q);
                    }
                    w.queue = Some(w.session.verif_wire(16));
                }
                "down" => w.session.verif_unwire(),
                _ => {
                    // the transport has gone: its end of the queue is closed, the session still holds the other end
                    if let Some(q) = w.queue.take() {
                        w.old_queues.push(q);
                    }
                    let mut q = w.session.verif_wire(16);
                    q.close();
                    w.queue = Some(q);
                }
            }
            (json!([]), "".into())
        }
        _ => (json!([]), "".into()),
    }
}

pub fn run_case(case: &Value, out: &mut Obs) {
    let cid = case.get("case").cloned().unwrap_or(Value::Null);
    RT.with(|rt| {
        let _g = rt.enter();
        let endpoint: EndpointDescription =
            ("opc.tcp://127.0.0.1:4855/", "None", MessageSecurityMode::None, UserTokenPolicy::anonymous()).into();
        let (session, _event_loop) = CLIENT.with(|c| c.borrow_mut().new_session_from_info(endpoint).expect("session"));
        let queue = session.verif_wire(16);
        let mut w = World { session, queue: Some(queue), old_queues: Vec::new(), futs: HashMap::new(), callbacks: HashMap::new() };
        let empty = vec![];
        let steps = case.get("steps").and_then(|s| s.as_array()).unwrap_or(&empty);
        for (i, s) in steps.iter().enumerate() {
            let r = guard(|| {
                let (acks, res) = step(&mut w, s);
                (acks, res, w.st())
            });
            let mut rec = s.clone();
            let obj = rec.as_object_mut().unwrap();
            obj.insert("case".into(), cid.clone());
            obj.insert("i".into(), json!(i + 1));
            match r {
                Ok((acks, res, st)) => {
                    obj.insert("acks".into(), acks);
                    obj.insert("res".into(), json!(res));
                    obj.insert("st".into(), st);
                    obj.insert("fail".into(), json!("none"));
                    obj.insert("site".into(), json!(""));
                    out.push(rec);
                }
                Err(site) => {
                    obj.insert("fail".into(), json!("panic"));
                    obj.insert("site".into(), json!(site_sig(&site)));
                    out.push(rec);
                    break;
                }
            }
        }
    });
}
