//! Engine `backoff` (C37): the real `ExponentialBackoff` made by `SessionRetryPolicy::new_backoff`.
//!
//! case = {"case": id, "c": {init, max, limit: {k: "none"|"some", v: [hi, lo]}, from: [hi, lo], n}}
//! Durations are nanosecond counts written as little-endian base-10000 digit arrays (no leading zeros).
//! observation = {"case", "i": 1, "c", "r": {fail, site, seq: [{k: "some", d: digits} | {k: "none", d: []}]}}
use crate::util::*;
use crate::Obs;
use opcua::client::verif::VerifBackoff;
use serde_json::{json, Value};
use std::time::Duration;

fn dur_in(v: &Value) -> Duration {
    let mut ns: u128 = 0;
    if let Some(a) = v.as_array() {
        for d in a.iter().rev() {
            ns = ns * 10000 + d.as_u64().unwrap_or(0) as u128;
        }
    }
    let secs = ns / 1_000_000_000;
    let nanos = (ns % 1_000_000_000) as u32;
    Duration::new(secs as u64, nanos)
}

fn dur_out(d: Duration) -> Value {
    let mut ns: u128 = d.as_nanos();
    let mut digits = Vec::new();
    while ns > 0 {
        digits.push((ns % 10000) as u64);
        ns /= 10000;
    }
    json!(digits)
}

fn big(v: &Value) -> u64 {
    v[0].as_u64().unwrap_or(0) * 65536 + v[1].as_u64().unwrap_or(0)
}

pub fn run_case(case: &Value, out: &mut Obs) {
    let cid = case.get("case").cloned().unwrap_or(Value::Null);
    let c = &case["c"];
    let init = dur_in(&c["init"]);
    let max = dur_in(&c["max"]);
    let limit = if gets(&c["limit"], "k") == "some" { Some(big(&c["limit"]["v"]) as u32) } else { None };
    let from = big(&c["from"]) as u32;
    let n = geti(c, "n");
    let policy = opcua::client::verif::SessionRetryPolicy::new(max, limit, init);
    let mut seq: Vec<Value> = Vec::new();
    let mut fail = "none".to_string();
    let mut site = String::new();
    let made = guard(|| {
        if from == 0 {
            VerifBackoff::new(&policy)
        } else {
            // the state after `from` delays: the delay has reached the maximum (or stayed 0)
            VerifBackoff::resume(&policy, from, dur_in(&c["cur"]))
        }
    });
    match made {
        Err(s) => {
            fail = "panic".into();
            site = site_sig(&s);
        }
        Ok(mut b) => {
            for _ in 0..n {
                match guard(|| b.next()) {
                    Ok(Some(d)) => seq.push(json!({"k": "some", "d": dur_out(d)})),
                    Ok(None) => seq.push(json!({"k": "none", "d": []})),
                    Err(s) => {
                        fail = "panic".into();
                        site = site_sig(&s);
                        break;
                    }
                }
            }
        }
    }
    out.push(json!({"case": cid, "i": 1, "c": c, "r": {"fail": fail, "site": site, "seq": seq}}));
}
