#!/bin/sh
# thor.sh [ids...] : runs the thorough tier of the given checks one after the other against /repo, with outputs and evidence
# (the evidence files are rewritten: re-run the quick tier afterwards); status in /verif/out/tmp/thor.txt
cd /verif
ids=${@:-$(python3 -c "import json;print(' '.join(c['property_id'] for c in json.load(open('MANIFEST.json'))['checks']))")}
out=/verif/out/tmp/thor.txt
echo "== thorough $(date)" >> $out
for p in $ids; do
  s=$(date +%s)
  timeout 5400 ./check $p --tier thorough > /verif/out/tmp/thor_$p.log 2>&1
  rc=$?
  echo "$p exit $rc $(( $(date +%s) - s ))s" >> $out
  rm -rf /verif/out/$p/thorough
done
echo "== end $(date)" >> $out
