#!/bin/sh
# thor.sh [ids...] : runs the thorough tier of the given checks one after the other against /repo, with outputs and evidence
# under /tmp/thor2 (VERIF_SCRATCH) so that the committed quick evidence stays; status in /verif/out/tmp/thor.txt
cd /verif
ids=${@:-$(python3 -c "import json;print(' '.join(c['property_id'] for c in json.load(open('MANIFEST.json'))['checks']))")}
out=/verif/out/tmp/thor.txt
echo "== thorough $(date)" >> $out
for p in $ids; do
  s=$(date +%s)
  VERIF_SCRATCH=/tmp/thor2 timeout 5400 ./check $p --tier thorough > /verif/out/tmp/thor_$p.log 2>&1
  rc=$?
  echo "$p exit $rc $(( $(date +%s) - s ))s" >> $out
  rm -rf /tmp/thor2/out/$p
done
echo "== end $(date)" >> $out
