#!/bin/sh
# sweep.sh [ids...] : runs the quick tier of the given (default: all claimed) checks one after the other, records exit code and wall time
cd /verif
ids=${@:-$(python3 -c "import json;print(' '.join(c['property_id'] for c in json.load(open('MANIFEST.json'))['checks']))")}
out=/verif/out/tmp/sweep${VERIF_SEED:+_seed$VERIF_SEED}.txt
echo "== sweep $(date)" >> $out
for p in $ids; do
  s=$(date +%s)
  timeout 2400 ./check $p --tier quick > /verif/out/tmp/sweep${VERIF_SEED:+_seed$VERIF_SEED}_$p.log 2>&1
  rc=$?
  echo "$p exit $rc $(( $(date +%s) - s ))s" >> $out
done
echo "== end $(date)" >> $out
