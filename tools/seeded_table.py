#!/usr/bin/env python3
"""seeded_table.py: prints the table of DESIGN.md section 10 from /verif/seeded/*/meta.json (what, needs, detection)
and the notes below; `--write` replaces the table between the markers in DESIGN.md."""
import json, os, re, sys

NOTES = {
    "C15": "**first missed**: the generator only produced pre-OPN MSG frames with header id 0; frame kind `MSGS` (stale id) was added to `Handshake.tla` and the engine because of this change",
    "C27": "**first missed**: the monitor only looked at responses made by timer ticks; it now also judges publish-request ticks (served = subscriptions whose pending count went down)",
    "C40": "the monitor already treated refused publishes as acknowledging nothing (that was first a false alarm of mine, found by TLC on the design)",
    "C10": "needs the byte-bound server configuration of the check",
    "C34": "explicit ids in the cases are chosen relative to the generator's position for exactly this reason",
    "C22": "found by the exhaustive Pub/Tick interleavings and the scripted intermittent supply",
    "C19": "**first missed**: time was a per-session jump and the monitor read the server's own timestamp (which the change corrupts); `Session.tla` now has abstract time (`Tick(d)`, per-session timeout, idle clock restarted only by requests that are carried out) and the monitor keeps its own idle time per token",
    "C30": "**first missed**: model and monitor already expressed it, but the quick generator did not reach two live continuation points with a modification between them; a scripted generation (`Mode = \"script\"`) was added",
    "C14": "**first missed**: the first engine drives begin/end of the renewal directly; `RenewSend.tla` + engine `renewsend` (the real `AsyncSecureChannel::send` futures of several caller tasks, keys identified by token and nonce) were built because of this change",
    "C33": "**first missed**: needs two requests that SUCCEED in order (SetMonitoringMode Disabled, Call ResendData) before the tick; random sequences over the 34k-request universe never produced them; every pair of the `Live` set is now run",
    "C12": "**first missed**: no history contained a message REFUSED by the sender (chunk / size limit) followed by further messages; `SeqNum.tla` got the refusal actions and the engine real limits",
    "C13": "**first missed**: every derivation ran on fresh channel objects; `KeyDerivation.tla` now also has sequences of exchanges (issue + renewals) on ONE pair of objects, judged after every exchange (history independence)",
    "C16": "**first missed**: only honest tokens and garbage ciphertexts were decrypted; `PasswordToken.tla` got crafted plaintexts (length prefix relative to the nonce length, nonces with leading zeros), correctly encrypted",
    "C09": "**first missed**: the bogus-padding shape had no boundary values; `Totality.tla` got a pad-size family relative to the bytes in front of the signature, built with valid signature and encryption (one- and two-byte sizes)",
    "C32": "**first missed**: no index range started at the length of the target, and a Good range write was judged only through the full read-back; ranges are now relative to the length, and the range is read back after the write",
    "C25": "**first missed**: sequences were too short and lacked a value between two others within the deadband; value-only drift sequences were added",
    "C35b": "**first missed**: the engine expired a request by moving its deadline into the past and could not see what the transport's timer was armed for; timeout classes and a hook reading the real `next_timeout` were added",
    "C26b": "caught by the fine-clock generation that was added for it (one model unit = 0.2 ms): the coarse clock never produced a step of a fraction of a millisecond",
    "C34b": "**first missed**: the model only deleted nodes WITH their references; `DelNode(n, tr)` now has both flags (references left behind, nodes re-created under them)",
    "C40b": "**first missed**: no behaviour had two subscriptions with retained notifications and then deleted one of them; a scripted eviction family was added",
    "C10b": "**first missed**: the harness's intermediate chunks carried no decodable message, so N intermediates + a final chunk failed either way; they are now the pieces of one real request, and the monitor got the clauses `message-beyond-the-negotiated-limits-was-answered` / `connection-survives-…`",
    "C24b": "**first missed**: the second overflow happened in the step that also drained the queue, where the monitor did not look; it now requires the mark in the delivered values of a queue that overflowed",
    "C22b": "",
    "C21b": "",
    "C12b": "",
    "C07b": "",
    "C38": "the CreateSession error path on a secured channel was added to the recorded tasks shortly before this trial (error paths of the session services had not been recorded)",
    "C29": "the first trial ran into the 40 min limit under machine load after the verdicts had been found; repeated",
}


def first_sentences(t, n):
    t = re.sub(r"\s+", " ", t).strip()
    if len(t) <= n:
        return t
    cut = t[:n]
    k = max(cut.rfind(". "), cut.rfind("; "), cut.rfind(", "))
    return (cut[:k] if k > n // 2 else cut).rstrip(" ,;.") + " …"


def rows():
    out = []
    base = "/verif/seeded"
    for d in sorted(os.listdir(base)):
        mp = os.path.join(base, d, "meta.json")
        if not os.path.exists(mp):
            continue
        m = json.load(open(mp))
        det = m.get("detection", {}).get("result", [])
        exits = [l for l in det if l.startswith("check")]
        sigs = []
        for l in det:
            mm = re.search(r"signature: (\S+)", l)
            if mm and mm.group(1) not in sigs:
                sigs.append(mm.group(1))
        caught = ", ".join("`%s`" % s for s in sigs[:3]) if sigs else ("**not caught** (%s)" % "; ".join(exits) if exits else "(pending)")
        what = first_sentences(m.get("what", ""), 260).replace("|", "\\|")
        needs = first_sentences(m.get("needs", ""), 220).replace("|", "\\|")
        out.append("| %s | %s | %s | %s | %s |" % (d, what, needs, caught, NOTES.get(d, "")))
    return out


HEAD = ["| seeded | what it does | what it needs | caught by (quick tier) | note |", "|---|---|---|---|---|"]

if __name__ == "__main__":
    table = "\n".join(HEAD + rows())
    if "--write" in sys.argv:
        p = "/verif/DESIGN.md"
        s = open(p).read()
        a = s.index("| seeded | what it does")
        b = s.index("\n\n", a)
        s = s[:a] + table + s[b:]
        open(p, "w").write(s)
        print("written", len(rows()), "rows")
    else:
        print(table)
