#!/usr/bin/env python3
"""archive_mutant.py <id>: files a confirmed seeded change under /verif/seeded/<id>/ (patch.diff, demo.diff, meta.json)."""
import json, os, shutil, sys
mid = sys.argv[1]
src = "/tmp/mut_%s/out" % mid
dst = "/verif/seeded/%s" % mid
os.makedirs(dst, exist_ok=True)
for f in ("patch.diff", "demo.diff"):
    shutil.copy(os.path.join(src, f), os.path.join(dst, f))
meta = json.load(open(os.path.join(src, "meta.json")))
conf = open(os.path.join(src, "confirm.txt")).read() if os.path.exists(os.path.join(src, "confirm.txt")) else ""
res = "/verif/out/tmp/mutant_%s.txt" % mid
det = open(res).read() if os.path.exists(res) else ""
lines = [l for l in conf.splitlines() if l.startswith("test result") or "FAILED" in l or l.startswith("--") or "... ok" in l]
meta["confirmed_by_coordinator"] = {
    "how": "tools/confirm_mutant.sh in the scratch worktree: (1) change + demo applied: cargo test --offline -p opcua --lib; (2) library change reverted, demo kept: the demo test alone",
    "output": lines[:12],
}
meta["detection"] = {
    "how": "tools/try_mutant.sh: patch applied to a scratch copy of /repo, quick tier of the check run against that copy",
    "result": [l for l in det.splitlines() if l.startswith("check") or "signature" in l or "PATCH" in l],
}
json.dump(meta, open(os.path.join(dst, "meta.json"), "w"), indent=1)
print(json.dumps(meta["confirmed_by_coordinator"]["output"], indent=0)[:600])
print(meta["detection"]["result"])
