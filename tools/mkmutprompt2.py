#!/usr/bin/env python3
"""mkmutprompt2.py <id><suffix> "<what to stay away from>": a second seeding prompt for a property (worktree /tmp/mut_<id><suffix>),
same text as tools/mkmutprompt.sh plus one sentence that steers the agent away from the site of the first seeded change."""
import json, subprocess, sys, re
tag, avoid = sys.argv[1], sys.argv[2]
pid = re.match(r"C\d\d", tag).group(0)
subprocess.run(["sh", "/verif/tools/mkmutprompt.sh", pid], check=True, stdout=subprocess.DEVNULL)
t = open("/tmp/mutprompts/%s.txt" % pid).read()
t = t.replace("/tmp/mut_%s" % pid, "/tmp/mut_%s" % tag)
t = t.replace("Think first about which specific scenario", "Stay away from this part of the code, which has been looked at already: %s. Think first about which specific scenario" % avoid)
open("/tmp/mutprompts/%s.txt" % tag, "w").write(t)
subprocess.run(["git", "-C", "/repo", "worktree", "add", "--detach", "/tmp/mut_%s" % tag, "HEAD"], stdout=subprocess.DEVNULL, stderr=subprocess.DEVNULL)
print("prompt", tag)
