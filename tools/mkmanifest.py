#!/usr/bin/env python3
"""Regenerates /verif/MANIFEST.json from tools/claims.py (single source of truth for what is claimed)."""
import json, os, sys, subprocess
here = os.path.dirname(os.path.abspath(__file__))
sys.path.insert(0, here)
from claims import CLAIMS, NOT_APPLICABLE, NOTES, ENGINES
root = os.path.dirname(here)
props = [json.loads(l) for l in open(os.path.join(root, "properties.jsonl"))]
ids = [p["id"] for p in props]
hooks = subprocess.run(["git", "-C", "/repo", "log", "--format=%H %s"], stdout=subprocess.PIPE, text=True).stdout.splitlines()
hook_commits = [l.split()[0] for l in hooks if l.split(" ", 1)[1].startswith("verif hooks")]
checks = []
for pid in ids:
    if pid in CLAIMS:
        c = CLAIMS[pid]
        checks.append({
            "property_id": pid,
            "quick_cmd": "./check %s --tier quick" % pid,
            "thorough_cmd": "./check %s --tier thorough" % pid,
            "evidence_file": "/verif/evidence/%s.json" % pid,
            "replay_cmd_template": "./check %s --replay {path}" % pid,
            "engine": c["engine"],
            "level_claimed": {"category": c["level"], "text": c["text"], "design_ref": c.get("ref", "DESIGN.md section 4 " + pid)},
            "level_note": c["note"],
            "technique": c.get("technique", "TLA+ specification model-checked with TLC; TLC-generated behaviours replayed on the real code; observations judged by a TLA+ trace monitor run by TLC"),
        })
na = []
for pid in ids:
    if pid not in CLAIMS:
        na.append({"property_id": pid, "reason": NOT_APPLICABLE.get(pid, "check not built yet in this round (planned, see DESIGN.md section 8)")})
m = {
    "version": 1,
    "setup_cmd": "./setup.sh",
    "hooks": {
        "guard": "locka99_opcua_verif",
        "enable": "rustc --cfg locka99_opcua_verif, set through /verif/harness/.cargo/config.toml [build] rustflags; the harness depends on /repo/lib by path so every check rebuilds from /repo's working tree",
        "baseline_off_cmd": "cd /repo && cargo test --workspace --no-fail-fast --offline",
        "source_commits": hook_commits,
        "add_only": True,
    },
    "engines": ENGINES,
    "checks": checks,
    "notes": NOTES,
    "not_applicable": na,
}
json.dump(m, open(os.path.join(root, "MANIFEST.json"), "w"), indent=1)
print("claimed:", len(checks), "not applicable / not yet:", len(na))
