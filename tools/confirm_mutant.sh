#!/bin/sh
# confirm_mutant.sh <id> : confirms a seeded change delivered in /tmp/mut_<id>/out (patch.diff, demo.diff, meta.json)
#  1. change + demo applied: the whole existing suite passes, only the demo test(s) fail
#  2. change reverted, demo kept: the demo passes
# uses one shared target dir; prints a summary to /tmp/mut_<id>/out/confirm.txt
id=$1
wt=/tmp/mut_$id
export CARGO_TARGET_DIR=$wt/target
cd $wt || exit 2
out=$wt/out/confirm.txt
echo "== $id confirm $(date)" > $out
git status --short | head -20 >> $out
# (1)
timeout 3000 cargo test --offline -p opcua --lib 2>&1 | grep -E "^test result|^test .* FAILED|failed|^failures:|^    [a-z_:]+$" | head -40 >> $out
echo "-- reverting library change" >> $out
git apply -R out/patch.diff >> $out 2>&1 || echo "REVERT FAILED" >> $out
filter=$(python3 -c "import json;print(json.load(open('$wt/out/meta.json'))['demo_cmd'].split()[-1])")
timeout 3000 cargo test --offline -p opcua --lib $filter 2>&1 | grep -E "^test result|^test .* (ok|FAILED)" | head -20 >> $out
git apply out/patch.diff >> $out 2>&1
rm -rf $wt/target
echo "== done" >> $out
