#!/bin/sh
# mutq.sh : processes ids listed in /tmp/mutq${MUT_SUFFIX:-}.txt one after the other (confirm in its worktree, then trial against the scratch copy)
while true; do
  id=$(head -1 /tmp/mutq${MUT_SUFFIX:-}.txt 2>/dev/null)
  if [ -z "$id" ]; then sleep 20; continue; fi
  sed -i 1d /tmp/mutq${MUT_SUFFIX:-}.txt
  [ "$id" = "STOP" ] && exit 0
  /verif/tools/try_mutant.sh $id
  [ -f /tmp/mut_$id/out/confirm.txt ] || /verif/tools/confirm_mutant.sh $id
  python3 /verif/tools/archive_mutant.py $id > /dev/null 2>&1
  echo "$id processed $(date)" >> /tmp/mutq.done
done
