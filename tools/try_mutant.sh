#!/bin/sh
# try_mutant.sh <id> [check ids...] : applies a seeded patch to a scratch copy of /repo (/tmp/mutrepo, a git worktree at /repo's HEAD)
# and runs the quick checks against that copy (VERIF_REPO / VERIF_SCRATCH, see lib/vlib.py); /repo and /verif/evidence are untouched.
id=$1; shift
sfx=${MUT_SUFFIX:-}
repo=/tmp/mutrepo$sfx
scratch=/tmp/mutscratch$sfx
checks=${@:-$(echo $id | cut -c1-3)}
p=/verif/seeded/$id/patch.diff
[ -f $p ] || p=/tmp/mut_$id/out/patch.diff
res=/verif/out/tmp/mutant_$id.txt
mkdir -p /verif/out/tmp $scratch
echo "== $id $(date) patch=$p" > $res
if [ ! -d $repo ]; then git -C /repo worktree add -q --detach $repo HEAD || exit 2; fi
cd $repo && git checkout -q --detach $(git -C /repo rev-parse HEAD) && git checkout -q -- . && git clean -fdq lib
if ! git apply --check $p 2>>$res; then echo "PATCH DOES NOT APPLY" >> $res; exit 1; fi
git apply $p
for c in $checks; do
  cd /verif
  VERIF_REPO=$repo VERIF_SCRATCH=$scratch timeout 2400 ./check $c > /verif/out/tmp/mutant_${id}_$c.log 2>&1
  rc=$?
  echo "check $c exit $rc" >> $res
  grep -E "^VIOLATION|signature:|TOOL-ERROR" /verif/out/tmp/mutant_${id}_$c.log | head -6 >> $res
done
cd $repo && git checkout -q -- .
echo "== done" >> $res
