#!/bin/sh
# mkmutprompt.sh <id>... : creates the scratch worktree /tmp/mut_<id> (detached at /repo HEAD) and the prompt file
# /tmp/mutprompts/<id>.txt for a seeding sub-agent.  The prompt contains only the text of the property (from
# properties.jsonl) and the procedure; nothing about /verif.
mkdir -p /tmp/mutprompts
for id in "$@"; do
  [ -d /tmp/mut_$id ] || git -C /repo worktree add --detach /tmp/mut_$id HEAD >/dev/null 2>&1
  python3 - "$id" <<'EOF'
import json, sys
pid = sys.argv[1]
p = [json.loads(l) for l in open('/verif/properties.jsonl') if json.loads(l)['id'] == pid][0]
wt = '/tmp/mut_' + pid
anchors = ', '.join(p.get('anchors', {}).get('files', []))
scope = p.get('quantifier', {}).get('text', '')
text = f"""You are a software engineer helping to evaluate a verification effort by seeding a realistic defect. You work ONLY inside your own scratch git worktree of the Rust project locka99/opcua (an OPC UA client/server stack) at {wt} (a `git worktree` of a pinned commit; `lib/` is the `opcua` crate). Do not read or touch /repo, /verif or any other directory; there is no network. Use your own build directory: prefix every cargo command with `CARGO_TARGET_DIR={wt}/target` and run cargo with `--offline` (e.g. `cd {wt} && CARGO_TARGET_DIR={wt}/target cargo test --offline -p opcua --lib <filter>`; a first build takes several minutes; the machine is shared, be patient and wrap long commands in `timeout 3000`).

Property of the system that should always hold ({pid} "{p.get('title','')}"):
"{p.get('statement', p.get('description',''))}"
It is meant for: {scope}
Code it is anchored in: {anchors}

Your task: make ONE small, plausible change to the library source under {wt}/lib/src (the kind of change a maintainer could commit by mistake: an off-by-one, a swapped condition, a forgotten reset, a reordered pair of statements, a missing case, an optimisation that skips a step…) such that
 1. the crate still compiles and the WHOLE existing unit test suite still passes unedited: `CARGO_TARGET_DIR={wt}/target cargo test --offline -p opcua --lib` must report 0 failed (one test, `monitored_item_event_filter`, is known to fail when run alone — ignore it if you ever run it in isolation; in the full run it passes);
 2. the property above is violated by the changed code, but NOT in a way that ordinary use would expose at once: the violation must need something specific to manifest — a particular interleaving or order of operations, a multi-step sequence, a boundary value or unusual input, a particular configuration, or two cooperating sites that each look fine alone;
 3. you demonstrate it: write a new test (e.g. a new file `{wt}/lib/src/seeded_demo.rs` wired in with `#[cfg(test)] mod seeded_demo;` in lib.rs, or a test appended to an existing tests module — the demo may use crate-private items) that FAILS with your change and PASSES on the unchanged code. Show both runs.
Think first about which specific scenario the existing tests do not cover, read the code, then choose the change.

Deliverables, all under {wt}/out/ (create it):
 - `patch.diff`: `git diff` of ONLY the library source change (not the demo test, not lib.rs wiring);
 - `demo.diff`: the diff that adds the demonstration test (including any wiring);
 - `meta.json`: {{"property": "{pid}", "what": "<one paragraph: what the change is>", "needs": "<what specific scenario is needed for it to manifest>", "demo_cmd": "<exact command that runs the demo>", "ran": ["<commands you ran and their outcome>"]}};
 - leave the worktree with BOTH the change and the demo applied.
Before finishing delete {wt}/target (it is large). Final answer: the content of meta.json plus the two diffs."""
open('/tmp/mutprompts/' + pid + '.txt', 'w').write(text)
print('prompt', pid)
EOF
done
