"""What MANIFEST.json claims. Edited by hand; tools/mkmanifest.py turns it into MANIFEST.json."""
SUBS_NOTE = ("Trusted: TLC/SANY, the python driver, the harness projection of the real Subscription/MonitoredItem state "
             "(hook accessors), the explicit clock injected through verif_tick/verif_publish_at. Bounded: results hold "
             "for the constants recorded in the evidence file.")
CLAIMS = {
    "C22": dict(engine="subs", level="model_checking",
                text="Subscription.tla (the Part 4 state table as the code transcribes it, one action per call under the session "
                     "lock) is model-checked by TLC against the C22 monitor (keep-alive gap <= maxKA+1 intervals with requests "
                     "available, expiry neither before lifetime-1 nor after lifetime+1 idle intervals, closed only with a "
                     "StatusChange) for all Pub/Tick interleavings within the bounds; TLC-generated behaviours (exhaustive to a "
                     "depth bound, scripted supply patterns, simulation) are replayed on the real server connection and the real "
                     "observations are judged by the same monitor in TLC, and compared step by step with the specification's "
                     "prediction (L1 conformance).",
                note=SUBS_NOTE),
}
NOT_APPLICABLE = {
    "C41": "identity of a third-party YAML serializer over configuration records: no state, transition or case analysis for a TLA+ specification to own, and TLC cannot enumerate the string space that matters (DESIGN.md section 5)",
    "C42": "encode/decode fidelity of serde implementations with identity as the only oracle: outside what a TLA+ model decides (DESIGN.md section 5)",
}
ENGINES = [
    {"name": "subs", "path": "/verif/harness/src/e_subs.rs", "serves_properties": ["C21", "C22", "C26", "C27", "C40"],
     "kind_free_text": "replays behaviours of spec/Subscription.tla on a real server connection (TcpTransport + MessageHandler + Session + Subscriptions) without a socket; observations judged by spec/TraceSubs.tla + spec/SubsProps.tla"},
]
NOTES = ("All checks: ./check <id> --tier quick|thorough. Specifications in /verif/spec (L1 subsystem specifications, L2 property "
         "monitors *Props.tla, MC*/Gen*/Trace* modules). Known findings and fixed defects: /verif/known_findings.txt.")
