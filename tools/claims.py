"""What MANIFEST.json claims. Edited by hand; tools/mkmanifest.py turns it into MANIFEST.json."""
SUBS_NOTE = ("Trusted: TLC/SANY, the python driver, the harness projection of the real Subscription/MonitoredItem state "
             "(hook accessors), the explicit clock injected through verif_tick/verif_publish_at. Bounded: results hold "
             "for the constants recorded in the evidence file.")
CLAIMS = {
    "C22": dict(engine="subs", level="model_checking",
                text="Subscription.tla (the Part 4 state table as the code transcribes it, one action per call under the session "
                     "lock) is model-checked by TLC against the C22 monitor (keep-alive gap <= maxKA+1 intervals with requests "
                     "available, expiry neither before lifetime-1 nor after lifetime+1 idle intervals, closed only with a "
                     "StatusChange) for all Pub/Tick interleavings within the bounds; TLC-generated behaviours (exhaustive to a "
                     "depth bound, scripted supply patterns, simulation) are replayed on the real server connection and the real "
                     "observations are judged by the same monitor in TLC, and compared step by step with the specification's "
                     "prediction (L1 conformance).",
                note=SUBS_NOTE),
}
_SUBS = "Subscription.tla model-checked by TLC against the %s monitor of SubsProps.tla within the bounds in the evidence file; TLC-generated behaviours (exhaustive to a depth bound and simulated) are replayed on the real server connection; the real observations are judged by the same monitor in TLC and compared step by step with the specification's prediction. "
CLAIMS.update({
    "C21": dict(engine="subs", level="model_checking", note=SUBS_NOTE,
                text=_SUBS % "C21" + "Monitor: every response answers the oldest queued request, sequence numbers increase per subscription, "
                     "delivered values are a prefix of the values the item sampled and equal them whenever nothing is pending (while "
                     "publishing stayed enabled, the item stayed alive and its queue never overflowed)."),
    "C24": dict(engine="subs", level="model_checking", note=SUBS_NOTE,
                text=_SUBS % "C24" + "Monitor: the projected item queue never exceeds its size and always equals the queue the statement "
                     "describes (append; when full drop the oldest or replace the newest, overflow marked; modify keeps the newest "
                     "entries that fit and never fails); every delivered batch equals the queue that was drained."),
    "C26": dict(engine="subs", level="model_checking", note=SUBS_NOTE,
                text=_SUBS % "C26" + "Monitor: no timer tick or publish request fails, for clocks that jump backwards/forwards and request "
                     "timestamps in the past/future; BadTimeout only when now - timestamp exceeds the request's timeout."),
    "C27": dict(engine="subs", level="model_checking", note=SUBS_NOTE,
                text=_SUBS % "C27" + "Monitor: in a timer tick no subscription is answered while a subscription of higher priority is left "
                     "with notifications queued."),
    "C40": dict(engine="subs", level="model_checking", note=SUBS_NOTE,
                text=_SUBS % "C40" + "Monitor: a sent, unacknowledged, unevicted notification is republished identically; after a Good "
                     "acknowledgement it is gone; acknowledgement results are Good exactly for retained entries and "
                     "BadSequenceNumberUnknown for unknown ones; refused publish requests acknowledge nothing."),
})
CLAIMS["C23"] = dict(engine="revise", level="model_checking",
    text="Revise.tla enumerates the requested values (NaN, +-inf, negative, 0, around each minimum, huge; counts 0, 1, around the "
         "maximum, around u32::MAX/3, u32::MAX; queue sizes) x 3 server limit configurations x create/modify; TLC checks the "
         "specified revision against the property predicate for every point and emits every point as a case; each case is sent "
         "through the real Create/ModifySubscription and Create/ModifyMonitoredItems services and the returned revised values are "
         "judged by the same TLA+ predicate in TLC.",
    note="Trusted: TLC, the harness's mapping of abstract durations/counts to f64/u32 and back (exact for the points used). "
         "Server limits are set through public ServerState fields.")
CLAIMS["C25"] = dict(engine="filter", level="model_checking",
    text="Filter.tla states which samples a data change filter must report (trigger Status / StatusValue / StatusValueTimestamp, "
         "absolute deadband on numeric values, equality otherwise, last-reported value updated only on a report) and which filters "
         "can never report a value change; TLC enumerates every filter x every DataValue sequence up to the bound, checks the "
         "specified behaviour against the predicate and emits each case; each case runs on a real monitored item with the real "
         "DataChangeFilter (one sample per publishing interval, a publish request queued) and the reported/not-reported vector is "
         "judged by the same predicate in TLC.",
    note="Trusted: TLC; the harness's reading of 'reported' = DataChangeNotification in that interval's publish response; source and "
         "server timestamps are written together. Percent deadband semantics are not judged (the server refuses it).")
NOT_APPLICABLE = {
    "C41": "identity of a third-party YAML serializer over configuration records: no state, transition or case analysis for a TLA+ specification to own, and TLC cannot enumerate the string space that matters (DESIGN.md section 5)",
    "C42": "encode/decode fidelity of serde implementations with identity as the only oracle: outside what a TLA+ model decides (DESIGN.md section 5)",
}
ENGINES = [
    {"name": "filter", "path": "/verif/harness/src/e_filter.rs", "serves_properties": ["C25"],
     "kind_free_text": "runs each (filter, DataValue sequence) case of spec/Filter.tla on a real monitored item; judged by spec/TraceFilter.tla"},
    {"name": "revise", "path": "/verif/harness/src/e_revise.rs", "serves_properties": ["C23"],
     "kind_free_text": "sends each point of spec/Revise.tla's input space through the real subscription / monitored item services; judged by spec/TraceRevise.tla"},
    {"name": "subs", "path": "/verif/harness/src/e_subs.rs", "serves_properties": ["C21", "C22", "C24", "C26", "C27", "C40"],
     "kind_free_text": "replays behaviours of spec/Subscription.tla on a real server connection (TcpTransport + MessageHandler + Session + Subscriptions) without a socket; observations judged by spec/TraceSubs.tla + spec/SubsProps.tla"},
]
NOTES = ("All checks: ./check <id> --tier quick|thorough. Specifications in /verif/spec (L1 subsystem specifications, L2 property "
         "monitors *Props.tla, MC*/Gen*/Trace* modules). Known findings and fixed defects: /verif/known_findings.txt.")
