"""What MANIFEST.json claims. Edited by hand; tools/mkmanifest.py turns it into MANIFEST.json."""
SUBS_NOTE = ("Trusted: TLC/SANY, the python driver, the harness projection of the real Subscription/MonitoredItem state "
             "(hook accessors), the explicit clock injected through verif_tick/verif_publish_at. Bounded: results hold "
             "for the constants recorded in the evidence file.")
CLAIMS = {
    "C22": dict(engine="subs", level="model_checking",
                text="Subscription.tla (the Part 4 state table as the code transcribes it, one action per call under the session "
                     "lock) is model-checked by TLC against the C22 monitor (keep-alive gap <= maxKA+1 intervals with requests "
                     "available, expiry neither before lifetime-1 nor after lifetime+1 idle intervals, closed only with a "
                     "StatusChange) for all Pub/Tick interleavings within the bounds; TLC-generated behaviours (exhaustive to a "
                     "depth bound, scripted supply patterns, simulation) are replayed on the real server connection and the real "
                     "observations are judged by the same monitor in TLC, and compared step by step with the specification's "
                     "prediction (L1 conformance).",
                note=SUBS_NOTE),
}
_SUBS = "Subscription.tla model-checked by TLC against the %s monitor of SubsProps.tla within the bounds in the evidence file; TLC-generated behaviours (exhaustive to a depth bound and simulated) are replayed on the real server connection; the real observations are judged by the same monitor in TLC and compared step by step with the specification's prediction. "
CLAIMS.update({
    "C21": dict(engine="subs", level="model_checking", note=SUBS_NOTE,
                text=_SUBS % "C21" + "Monitor: every response answers the oldest queued request, sequence numbers increase per subscription, "
                     "delivered values are a prefix of the values the item sampled and equal them whenever nothing is pending (while "
                     "publishing stayed enabled, the item stayed alive and its queue never overflowed)."),
    "C24": dict(engine="subs", level="model_checking", note=SUBS_NOTE,
                text=_SUBS % "C24" + "Monitor: the projected item queue never exceeds its size and always equals the queue the statement "
                     "describes (append; when full drop the oldest or replace the newest, overflow marked; modify keeps the newest "
                     "entries that fit and never fails); every delivered batch equals the queue that was drained."),
    "C26": dict(engine="subs", level="model_checking", note=SUBS_NOTE,
                text=_SUBS % "C26" + "Monitor: no timer tick or publish request fails, for clocks that jump backwards/forwards and request "
                     "timestamps in the past/future; BadTimeout only when now - timestamp exceeds the request's timeout."),
    "C27": dict(engine="subs", level="model_checking", note=SUBS_NOTE,
                text=_SUBS % "C27" + "Monitor: in a timer tick no subscription is answered while a subscription of higher priority is left "
                     "with notifications queued."),
    "C40": dict(engine="subs", level="model_checking", note=SUBS_NOTE,
                text=_SUBS % "C40" + "Monitor: a sent, unacknowledged, unevicted notification is republished identically; after a Good "
                     "acknowledgement it is gone; acknowledgement results are Good exactly for retained entries and "
                     "BadSequenceNumberUnknown for unknown ones; refused publish requests acknowledge nothing."),
})
CLAIMS["C23"] = dict(engine="revise", level="model_checking",
    text="Revise.tla enumerates the requested values (NaN, +-inf, negative, 0, around each minimum, huge; counts 0, 1, around the "
         "maximum, around u32::MAX/3, u32::MAX; queue sizes) x 3 server limit configurations x create/modify; TLC checks the "
         "specified revision against the property predicate for every point and emits every point as a case; each case is sent "
         "through the real Create/ModifySubscription and Create/ModifyMonitoredItems services and the returned revised values are "
         "judged by the same TLA+ predicate in TLC.",
    note="Trusted: TLC, the harness's mapping of abstract durations/counts to f64/u32 and back (exact for the points used). "
         "Server limits are set through public ServerState fields.")
CLAIMS["C25"] = dict(engine="filter", level="model_checking",
    text="Filter.tla states which samples a data change filter must report (trigger Status / StatusValue / StatusValueTimestamp, "
         "absolute deadband on numeric values, equality otherwise, last-reported value updated only on a report) and which filters "
         "can never report a value change; TLC enumerates every filter x every DataValue sequence up to the bound, checks the "
         "specified behaviour against the predicate and emits each case; each case runs on a real monitored item with the real "
         "DataChangeFilter (one sample per publishing interval, a publish request queued) and the reported/not-reported vector is "
         "judged by the same predicate in TLC.",
    note="Trusted: TLC; the harness's reading of 'reported' = DataChangeNotification in that interval's publish response; source and "
         "server timestamps are written together. Percent deadband semantics are not judged (the server refuses it).")

FN_NOTE = ("Trusted: TLC/SANY, the python driver, the harness's concretisation of abstract cases and re-abstraction of real results "
           "(kept table-driven), catch_unwind / child processes for failures. Bounded: holds for the enumerated abstract space "
           "recorded in the evidence file.")
CLAIMS.update({
    "C01": dict(engine="codec_rt", level="model_checking", note=FN_NOTE + " Not covered: the ~400 generated service structures beyond 4 representative messages, leaf-value fidelity (floats, DateTime ticks, UTF-8, Guid byte order).",
                text="Codec.tla specifies the byte layout (Enc), predicted length, normalisation and a decoder state machine for the recursive "
                     "built-in containers (Variant incl. empty arrays with/without dimensions, DataValue masks, DiagnosticInfo chains, "
                     "ExtensionObject, NodeId/ExpandedNodeId encodings, LocalizedText, QualifiedName) over tiny leaf domains; TLC checks the "
                     "specified codec (DesignOK, TreeOK) for every enumerated value and emits each as a case; the real byte_len/encode/decode "
                     "run on it between two sentinels, twice; TLC judges predicted length = bytes written = bytes consumed, value = Norm(v)."),
    "C02": dict(engine="codec_nest", level="model_checking", note=FN_NOTE + " Not covered: uniformly random byte strings as such (only seeded mutants of spec-generated encodings, reported separately); 2 MiB stack assumed.",
                text="Codec.tla's decoder takes a depth lock on every recursive edge of the container grammar and checks length words before "
                     "allocating; TLC enumerates all nesting paths and grammar cycles up to MaxDepth+2; each is repeated depth-1/depth/depth+1 "
                     "and 200000 times and decoded by the real decoder in a child process with a counting allocator (default, minimal and "
                     "depth-3 options); TLC judges outcome in {value, error}, nesting beyond the limit rejected, peak allocation within the "
                     "specified bound."),
    "C03": dict(engine="codec_lim", level="model_checking", note=FN_NOTE,
                text="CodecLim.tla is the decision table accept iff len = -1 or 0 <= len <= L over construct x nesting position x declared "
                     "length {L-1, L, L+1, -1, -2, 0, 2^31-1} x limit {0,1,5,default}; TLC enumerates it exhaustively, the harness writes the "
                     "bytes and decodes with the real decoder under those DecodingOptions (chunk sizes through MessageChunk::decode and "
                     "TcpCodec with a reader that records reads past the header); accept/reject is judged against the table by TLC."),
    "C04": dict(engine="text04", level="model_checking", note=FN_NOTE + " Text is carried as code point sequences. No TLA+ parser is specified: the round trip is judged on the real printer+parser, printer injectivity is the design obligation.",
                text="TextForms.tla enumerates NodeIds, ExpandedNodeIds, Guids, NumericRanges and DateTimes over namespaces {0,1,9,10,65535}, "
                     "identifier payloads with ; = blanks line feeds and multi-byte characters, server indices, URIs with % and ;; TLC proves "
                     "the specified Part 6 printers injective and emits every value; the real Display/FromStr pair runs on each and TLC judges "
                     "Parse(Print(v)) = v on abstract values (DateTime at printed precision). For the no-panic half TLC enumerates all strings "
                     "up to length 4 (5 thorough) over adversarial alphabets plus one-character mutants of printed forms; 7 real parsers "
                     "must return a value or an error."),
    "C05": dict(engine="text05", level="model_checking", note=FN_NOTE,
                text="TextForms.tla enumerates relative paths (16 reference types incl. ns-qualified and numeric custom types x flags x target "
                     "namespaces up to 65535 x every name over a 1 & / . < > : # ! and a non-ASCII letter, 1-4 elements exhaustively, up to 32 "
                     "elements by TLC simulation); TLC proves the Annex A printer injective; the real printer/parser pair runs on each path "
                     "and TLC judges the re-parsed path element by element; all strings up to length 4 (5) over the reserved alphabet parse "
                     "without panicking."),
    "C06": dict(engine="num", level="model_checking", note=FN_NOTE + " Ties accept both neighbours; cast to Boolean and Double-beyond-f32 to Float are not judged.",
                text="NumLine.tla is an ordered line of 121 named boundary points of the eleven numeric types (extremes, x.5 neighbours, "
                     "largest float-exact integers, NaN, +-inf) with the Part 4 implicit conversion table; TLC checks the specified "
                     "convert/cast against the statement's predicates for every (source type, point, target type) and emits every case; the "
                     "real Variant::convert and Variant::cast run on each and TLC judges with the same predicates."),
    "C13": dict(engine="keyderiv", level="model_checking", note=FN_NOTE + " Cryptographic primitives are uninterpreted in the specification (a MAC/PRF term equals another iff its arguments are equal); openssl SHA-1/SHA-256 and a 30-line P_hash in the harness are trusted; hook SecureChannel::verif_derived_keys.",
                text="KeyDerivation.tla models Part 6 Table 33 as symbolic P_SHA terms with the key lengths per policy; TLC checks, for all pairs of "
                     "abstract nonces (lengths 0..64, repeated bytes), that the client's local keys are the server's remote keys and that "
                     "distinct nonce pairs give distinct terms; for each case the real make_secure_channel_keys and client/server-role "
                     "derive_keys run and TLC judges the re-abstracted key bytes against the terms (evaluated with an independent P_hash), "
                     "cross-role agreement, and a chunk secured by one role verifying on the other."),
    "C16": dict(engine="pwtoken", level="model_checking", note=FN_NOTE + " RSA is symbolic in the model; openssl EVP is trusted. A nonce variant that the plaintext body ends with is a valid token by the format, only no-panic is required there.",
                text="PasswordToken.tla specifies the plaintext format len32|password|nonce and a decision table for crafted plaintexts (length "
                     "prefix relation x password class x nonce relation x padding x key size); TLC checks the specified decision against the "
                     "property and emits each case; the real legacy_password_encrypt/decrypt and decrypt_user_identity_token_password run on "
                     "each (RSA 1024/2048, thorough 4096; PKCS#1, OAEP-SHA1, OAEP-SHA256), plus arbitrary ciphertext lengths; TLC judges "
                     "round trip, nonce binding and error-not-panic."),
    "C17": dict(engine="sigdata", level="model_checking", note=FN_NOTE + " Sign/Verify uninterpreted in the model.",
                text="SignatureData.tla: Verify(sig, pk, cert|nonce) with uninterpreted Sign over mutation classes {none, certificate byte / "
                     "other certificate, nonce byte / truncated / extended / other, signature byte / truncated / extended, other signer} x "
                     "policy x key size; TLC checks the specified verdict and emits each class; the harness applies the class at EVERY byte "
                     "position of the region with 3 masks to real create_signature_data output and reports the set of verify outcomes; TLC "
                     "judges Good iff unmutated."),
    "C18": dict(engine="certtrust", level="model_checking", note=FN_NOTE + " The wall clock is assumed to lie between 2002 and 2097 (validity periods of the minted certificates).",
                text="CertTrust.tla: state = trusted / rejected directories as sets of certificate files, action Validate(cert, flags) with verdict "
                     "and store effects, and the property exactly as stated; TLC checks all combinations (directory content absent / same / "
                     "different bytes, trust-unknown, skip-verify, check-time, policy x key length, validity period, host, URI) and two-step "
                     "histories, emitting each; the real CertificateStore runs each on a scratch PKI directory with minted certificates; TLC "
                     "judges verdict class and directory effects."),
    "C39": dict(engine="like+ops", level="model_checking", note=FN_NOTE + " Hooks expose the private where-clause evaluator and LIKE matcher. Tolerance sets where Part 4 leaves the result open.",
                text="Like.tla defines the LIKE pattern language compositionally (% any run, _ exactly one, [] lists, escapes) and Operators.tla "
                     "the Part 4 operator semantics with NULL handling and implicit conversion via NumLine; TLC checks the specified matcher "
                     "and evaluator (and shows the pinned _ -> ? deviation as a counterexample), enumerates all patterns/strings up to the "
                     "bound and clauses incl. malformed ones (operand counts 0..4, out-of-range / looping element operands, attribute "
                     "operands, Not-chains); the real matcher and evaluator run on each; TLC judges result and no-panic."),
})


ASP_NOTE = ("Trusted: TLC/SANY, the python driver, the harness's projection (answers of find_references / find_inverse_references / "
            "has_reference / node_exists for the whole small universe after every call). Bounded: 3-4 nodes, 2-3 reference types, "
            "depth bounds in the evidence file.")
_ASP = "AddressSpace.tla (node map + reference index as the code keeps them, one action per public call) is model-checked by TLC against the %s monitor of AspaceProps.tla; every behaviour up to the depth bound (plus simulation over 4 nodes) is replayed on a real AddressSpace, each case in its own process where deletion may not terminate; the real query answers are judged by the same monitor in TLC and compared with the specification's prediction. "
CLAIMS.update({
    "C28": dict(engine="aspace", level="model_checking", note=ASP_NOTE,
                text=_ASP % "C28" + "Monitor: forward, inverse, filtered references and has_reference of every node equal the set of references added and not removed; delete_reference's result is right."),
    "C29": dict(engine="aspace", level="model_checking", note=ASP_NOTE,
                text=_ASP % "C29" + "Monitor: delete(node, true) returns (no abort / time-out), removes exactly the node and its aggregates closure, and no query mentions a removed node afterwards."),
    "C31": dict(engine="aspace", level="model_checking", note=ASP_NOTE + " The standard node set is not enumerated (graphs are generated by TLC over named nodes).",
                text=_ASP % "C31" + "Monitor: find_nodes_relative_path returns exactly the set comprehension of the statement (type or subtypes, direction, browse name, element by element) for every generated graph x start node x relative path of 1-3 elements."),
    "C34": dict(engine="nodemgmt", level="model_checking",
                note="Trusted: TLC/SANY, the python driver, the harness's projection of nodes and references of the case's universe (through node_exists / find_references). Bounded: ids 1..6, 2 names, 2 reference types, depth bounds in the evidence file.",
                text="NodeMgmt.tla specifies AddNodes / AddReferences / DeleteReferences / DeleteNodes on a small universe with a server-assigned id "
                     "counter; TLC model-checks the C34 monitor (Good AddNodes => new id, node exists, referenced from the parent; Bad => nothing "
                     "changed) and shows the two repaired departures as counterexamples; every sequence up to the depth bound plus simulation "
                     "is sent through the real services (real MessageHandler, session, address space), explicit ids chosen to collide with the "
                     "next server-assigned ids; the same monitor judges the real results in TLC."),
})


HS_NOTE = ("Trusted: TLC/SANY, the python driver, the harness's mirror of the reading task (first frame must be a hello, a chunk is "
           "handed to process_chunk, an error finishes the transport) and hook accessors verif_hello / verif_chunk / verif_pending. "
           "Frames are built with the real encoders on a policy-None client channel.")
_HS = "Handshake.tla (transport state, issued flag, pending chunk list; one action per frame the codec yields) is model-checked by TLC against the %s monitor of HandshakeProps.tla for every frame sequence up to the depth bound; the same sequences are fed to a real TcpTransport of a real server; the queued responses, transport state and pending chunks observed after every frame are judged by the monitor in TLC and compared with the specification's prediction. "
CLAIMS.update({
    "C15": dict(engine="handshake", level="model_checking", note=HS_NOTE,
                text=_HS % "C15" + "Monitor: nothing but a Hello is answered before an ACK was sent and the connection does not survive such a frame; no service response to a MSG before an OpenSecureChannel response was seen; nothing is answered after CloseSecureChannel / an error."),
    "C10": dict(engine="handshake", level="model_checking", note=HS_NOTE + " The TCP framing half (declared frame size) is decided by the C03 check.",
                text=_HS % "C10" + "Monitor: the number of pending chunks never exceeds max_chunk_count and their bytes never exceed max_message_size (two server configurations: count-bound and byte-bound)."),
    "C35": dict(engine="ctrans", level="model_checking",
                note="Trusted: TLC, the three monitor modules, the harness glue standing in for TcpTransport::poll, the deadline-moving hook, MessageChunk splitting in the harness. Not covered: sockets, tcp.rs.",
                text="ClientTransport.tla (pending request map, deadlines, chunk assembly, close) is model-checked by TLC against the C35 monitor (each request completes at most once, with its own response, BadTimeout only after expiry, closed status only after close, exactly once at the end) for all interleavings of submit / response chunks (known, unknown, completed, expired ids) / expiry / close within 3-6 requests and 8-12 events; the behaviours (exhaustive + simulation) are replayed on the real TransportState / Request::send with real chunks and judged by the same monitor in TLC, with the L1 prediction compared step by step."),
    "C36": dict(engine="cacks", level="model_checking",
                note="Trusted: TLC, the monitor module, the harness sitting at the session's request queue (hooks Session::verif_wire / verif_publish). Not covered: the subscription event loop's timing, a real server on loopback.",
                text="ClientAcks.tla (acknowledgements to send, in-flight publish requests, failures with re-queue) is model-checked by TLC against the C36 monitor (every received (subscription, sequence number) is acknowledged in exactly one successful publish request, acknowledgements of failed requests reappear, none twice after success) for up to 3 publishes in flight, 2 subscriptions, 6 failure modes; the behaviours are replayed through the real Session::publish and judged by the same monitor in TLC. The client's acknowledging of keep-alive sequence numbers is a known finding with its own clause suffix."),
    "C37": dict(engine="backoff", level="model_checking",
                note="Trusted: TLC, exact big naturals in BigDigits.tla, the back-off state hook.",
                text="Backoff.tla specifies the delay sequence (initial, min(max, 2*previous), exactly retry-limit many or unbounded) with exact nanosecond arithmetic over the duration points 0, 1 ns, 500 ms, 30 s, MAX/2, MAX/2+1ns, MAX-1ns, MAX and retry limits none, 0..3, 10, 70, u32::MAX; TLC checks the specified sequence against the predicate and emits each policy; the real ExponentialBackoff produces up to 70 delays per policy, judged by the same predicate in TLC."),
})


CLAIMS["C14"] = dict(engine="renew", level="model_checking",
    note="Trusted: TLC/SANY, the python driver, FIFO wires held by the harness, hooks verif_chunk (server reader task), VerifSecureChannelState::verif_begin/end_issue_or_renew (client caller task). Crypto is real (Basic256Sha256 SignAndEncrypt); tokens are abstract numbers in the model. The two KNOWN findings (single key slot per side) are reported as KNOWN-FINDING lines, only in cases that the pinned-tree model explains step by step.",
    text="Renew.tla has one process per real task (client caller, client transport, server reader, server writer securing at write time) over FIFO wires; TLC shows that the corrected design (previous/next key slots, new token used for sending once seen) satisfies the C14 monitor for all interleavings within the bounds and that the pinned tree's single key slot violates it; every interleaving of the pinned-tree model up to the depth bound plus simulation with two renewals is replayed on a real server TcpTransport + MessageWriter and a real client SecureChannel + SecureChannelState; accept/reject of every delivery is judged by the monitor in TLC and compared with the model (zero drift required for a violation to count as the known finding).")


CLAIMS["C38"] = dict(engine="locks", level="model_checking",
    note="Trusted: TLC/SANY, the python driver, the lock-tracing hook (the three lock macros return a recording guard under the cfg), parking_lot's task-fair RwLock policy as modelled in Locks.tla. Limits: acquisitions not made through the macros are inventoried in the evidence but not composed; one execution per task kind (data-dependent branches are not explored); tokio scheduling is not modelled. The known findings (method Call holding the AddressSpace lock across session lookups; one SessionManager shared by all transports) are reported as KNOWN-FINDING lines.",
    text="The acquisition program (ordered acquire/release of lock instances with modes) of every server task kind - each service of the message handler, the subscription timer body, session creation/activation/closing, transport teardown, on two connections of one real server - is recorded from the real code; Locks.tla composes every pair (thorough: plus sampled triples) of the distinct programs under task-fair RwLock semantics and TLC reports every group that can reach a state where no process can step; the class-level held->acquired relation is computed in TLA+ and every pair of classes taken in both orders is reported at the program that departs from the documented order.")


CLAIMS["C33"] = dict(engine="services", level="exploration",
    note="Trusted: TLC (enumeration of the request universe, seeded RandomElement for sequences), the harness's concretisation table abstract request -> real request structure, catch_unwind and one-process-per-case re-runs for aborts. This is exploration driven by the model: the specification owns the request universe and the predicate, not the services' semantics (those are C19-C32, C34, C40).",
    text="Services.tla defines the request universe of the services dispatched by MessageHandler::handle_message (31 services x adversarial parameter classes: missing / null ids, self references, unknown namespaces, reserved characters in browse names, malformed index ranges, mismatching attribute structures, malformed event where-clauses, NaN / zero / huge numbers, bogus continuation points and ids; 30141 requests) and the predicate 'answered by a response or ServiceFault, no failure, the session still served afterwards'; TLC enumerates the universe (thorough: all of it; quick: a seeded sample) and draws sequences of 4 requests; each is built as a real request and sent through the real message handler on an activated session, followed by two subscription timer ticks and a probe Read; TLC judges every observation with the predicate.")


CH_NOTE = ("Trusted: TLC and the CommunityModules; openssl primitives; the harness concretisation (h_channel/src/chan.rs: channel pairs from the same nonces, messages of exact encoded size, field-by-field chunk crafting with real crypto; mint.rs certificates); certificate DER lengths and smallest message sizes measured by the harness and handed to TLC as constants. Crypto is uninterpreted in the specifications.")
CLAIMS.update({
    "C07": dict(engine="layout", level="model_checking", note=CH_NOTE + " One known finding: the sender pads MSG chunks in Sign mode too (multi-chunk Sign messages reassemble with padding), reported as KNOWN-FINDING.",
                text="ChunkLayout.tla writes Layout(policy, mode, chunk size, message length) from the policies' block and signature sizes (incl. the extra padding byte for keys above 2048 bits); TLC proves Reassemble(Receive(Secure(Split(m)))) = m plus consecutive sequence numbers, one request id, final flag only on the last chunk and secured size <= chunk size on the corrected design for symmetric MSG and asymmetric OPN chunks x 6 policies x 3 modes x chunk sizes x boundary message lengths x key sizes, and emits each case; each runs through the real Chunker::encode -> apply_security -> verify_and_remove_security -> Chunker::decode with a real message of exactly that size; TLC judges headers, sizes and equality."),
    "C08": dict(engine="tamper", level="model_checking", note=CH_NOTE,
                text="Tamper.tla models a secured chunk symbolically (uninterpreted Mac/Enc) with adversary actions Flip(region) for 15 regions, Truncate, Extend, foreign keys / signer / recipient / certificate; TLC checks that the specified receiver delivers only unmodified chunks secured under its keys (and shows two weakened receivers violating); the harness applies each action at EVERY byte position (bit 0 and bit 7), every proper prefix and 19 extension lengths of real secured chunks for every policy and both signing modes and reports the set of outcomes; TLC judges that no mutant is delivered, as the original or as anything else."),
    "C09": dict(engine="total", level="fault_enumeration", note=CH_NOTE + " Uniformly random bytes are not modelled; seeded random mutations around every shape are run under catch_unwind.",
                text="Totality.tla specifies Receive as a total decision procedure over 28 malformed-shape classes (null / empty / garbage sender certificate, missing or mis-sized thumbprint, unknown policy URI, ciphertext not a block multiple, message shorter than its signature, bogus padding, size mismatch, symmetric chunk before keys, OPN without own certificate ...) x OPN/MSG/CLO x role x policy x mode x key size, with the classes that must be security errors; TLC enumerates the classes; each shape is built from a valid chunk with real crypto and fed to the real verify_and_remove_security together with seeded mutations; TLC judges chunk-or-error, never a failure, security codes for the named classes."),
})


FR_NOTE = ("Trusted: TLC/SANY and the python driver; the harness plumbing (an AsyncWrite sink with scripted partial / zero / pending writes, sha1 identities of frames and bytes, wire and adversary bookkeeping); the cfg-guarded hooks (SendBuffer projections, TcpTransport::verif_chunk / verif_hello, the client VerifTransport facade); apply_security / verify_and_remove_security used to read chunk headers back from real bytes.")
CLAIMS.update({
    "C11": dict(engine="framing", level="model_checking", note=FR_NOTE + " Bounded: every segmentation only for streams of <= 3 abstract frames; real streams get exhaustive cuts near header and frame ends, sampled cut sets and the all-single-byte schedule.",
                text="Framing.tla (TcpCodec::decode driven as FramedRead drives it: 9-byte header peek, declared size against the maximum, yield at message_size, end of stream; the client SendBuffer machine {Writing, Reading(end)} with accepted / zero-byte / Pending writes) is model-checked by TLC with the FramingProps monitor attached, for every segmentation of every stream of <= 3 abstract frames and every partial / zero / pending write sequence of scripts of <= 10 secured bytes (three deviation models violate the monitor). TLC generates segmentations of streams of REAL HEL / ACK / ERR / OPN / CLO / MSG frames and partial-write schedules (exhaustive near header ends and frame ends, simulation-sampled, all single bytes); they are replayed on the real TcpCodec and SendBuffer and the observations (frames yielded, bytes emitted after every write) are judged by the same monitor in TLC."),
    "C12": dict(engine="seqnum", level="model_checking", note=FR_NOTE + " Bounded: open channel (one id, one token), no u32 wrap-around, a receiver that rejected has closed the connection. MessageWriter never splits a response, so multi-chunk responses reach the client receiver only from a chunking peer.",
                text="SeqNum.tla (client SendBuffer and server MessageWriter counters, the server process_chunk path, the client TransportState path with per-request chunk storage, validate_chunks / decode; adversary moves on the head of a wire: reorder, duplicate, drop, replay a message, foreign channel id, mixed request ids) is model-checked by TLC with the SeqNumProps monitor for <= 6 messages of 1..3 chunks and <= 2 moves (three deviation models, incl. the pinned client merge_chunks, violate the monitor). The generated histories are replayed on the real send buffer, message writer, server TcpTransport::process_chunk, client TransportState and Chunker::validate_chunks / decode, on policy None and on a Basic256Sha256 SignAndEncrypt channel; emitted chunk headers are parsed back from the real bytes and accept / reject results are judged by the monitor in TLC."),
})


VIEW_NOTE = ("Trusted: TLC/SANY and the CommunityModules; harness/src/srv.rs (socket-less TcpTransport driven through the verif_message hook); the json<->Variant mapping and node / continuation-point numbering in h_view; a 1 ms sleep before each address-space modification (the continuation-point stamp is a wall clock); one session per case on a server shared within the process.")
CLAIMS.update({
    "C30": dict(engine="browse", level="model_checking", note=VIEW_NOTE + " Two modifications within the clock resolution are not exercised.",
                text="Browse.tla models the session's continuation points as the code keeps them (snapshot, page size, address-space stamp, oldest evicted at the cap); BrowseProps.tla judges observation records only; TLC checks the design against the monitor (incl. a cap of 2) and shows that the former delete-without-stamp behaviour violates it; TLC-generated behaviours (every Browse argument combination on generated folders followed to the end of its chain, every interleaving with BrowseNext / release / node-management modifications to depth 3-4, random 10-call behaviours, more than 20 open continuation points) are replayed through the real Browse / BrowseNext / NodeManagement services; the monitor requires pages to concatenate to the unlimited result of the same state in order without duplicates, used / released / outdated / unknown continuation points to answer BadContinuationPointInvalid, and at most 20 to be served."),
    "C32": dict(engine="attr", level="model_checking", note=VIEW_NOTE + " Write-compatibility cases the statement leaves open (Int16 into Int32, scalar <-> array, Empty) pass either way.",
                text="Attribute.tla models Read / Write on Value (user access level, type family check, index ranges with SubSeq semantics on characters / bytes / elements) for Int32, Int32[4], ASCII and multi-byte String, ByteString and Byte[] variables in read-only / writable / user-not-writable variants; AttributeProps.tla is the property over observation records; TLC checks the design and shows that byte-indexed strings violate it; every single call, every pair and reduced triples (5 attribute ids x 11 index range strings x 9 written value classes) are replayed through the real Attribute services; the monitor requires a status and no panic for every combination, Good only with user write access and a compatible type family, read-after-Good-write equality (incl. index ranges), Bad write => unchanged."),
})


SESS_NOTE = ("Trusted: TLC/SANY and the python driver; the harness's token construction (openssl RSA), the connection / channel / timeout / effect facts it records, its mapping of real channel ids to the n-th distinct id; requests dispatched decoded via the verif_message hook after a real HELLO + OpenSecureChannel per connection; timeouts modelled by moving last_service_request_timestamp into the past through the public setter.")
CLAIMS.update({
    "C19": dict(engine="session", level="model_checking", note=SESS_NOTE,
                text="Session.tla specifies sessions found by token in the server-wide session manager, their binding to a connection's secure channel id, activation and de-activation, close, timeout and the dispatch guard of validate_service_request; TLC checks the C19 monitor (a non-discovery, non-session service is carried out only for a token naming a session of this connection that is activated, bound to the current channel, not timed out, not closed; a fault changes nothing; a closed token is dead) for all histories up to 6 (8) requests on 2 connections and 2 sessions, and a deviation model exhibits the cross-connection token use that was repaired; TLC-generated histories (exhaustive + simulation) are replayed through the real MessageHandler of a real server and judged by the same monitor in TLC."),
    "C20": dict(engine="auth", level="model_checking", note=SESS_NOTE + " The table is three-valued where the statement is silent (null token on an anonymous endpoint, another valid encryption algorithm).",
                text="AuthTable.tla is the decision table of ActivateSession over 5 endpoint configurations x 2 security policies x token kinds (anonymous, user name plain / encrypted for the current or an EARLIER nonce / wrong algorithm, X.509 with good / bad signature and configured / unconfigured thumbprint, issued, garbage) x policy id, user, password variations (2088 points); TLC checks the specified decision for every point and emits them; histories with nonce generations and byte-identical replays of earlier tokens are model-checked and generated; every point and history runs through the real ActivateSession of a real server; the results are judged by the TLA+ predicate / monitor in TLC."),
})

FN2_NOTE = ("Trusted: TLC/SANY and the CommunityModules (Json, IOUtils), the python driver, util::guard (catch_unwind). ")
CLAIMS.update({
    "C41": dict(engine="config_rt", level="model_checking",
                note=FN2_NOTE + "Also trusted: the string table and numeric points in h_config/src/table.rs (injectivity asserted at start-up), ClientBuilder setters and serde_json as the projection used to re-abstract a configuration, the derived PartialEq / Debug, a log-capturing logger, the temp-dir file system. Bounded: the abstract class space (86 YAML-relevant string classes, None/Some, collections of 0-3 entries, every policy / mode spelling, numeric extremes); arbitrary strings outside the table are not covered. A save that is refused (a path that is not UTF-8) writes nothing and is counted in the evidence, not judged.",
                text="Config.tla specifies abstract ClientConfig / ServerConfig values (one class per field), the validity rule Valid transliterated from both is_valid() implementations, the specified save/load (identity on valid configurations) and the verdict predicate RtViol (load-failed, not-equal:<field>, not-valid-after-load, panic). TLC builds the cases as rows of an orthogonal array (every pair of values of every two fields occurs; measured 100 % in the evidence), a sweep that puts each of the 86 string classes at every string position, single-change families that break each is_valid rule once, and (thorough) seeded random full combinations; it checks that every row is valid by construction and the specified round trip satisfies the predicate. The harness builds the real struct, calls is_valid, Config::save to a file, Config::load, ==, is_valid again; TLC judges every observation whose original the real is_valid() accepts."),
    "C42": dict(engine="json_rt", level="model_checking",
                note=FN2_NOTE + "Also trusted: the h_json re-abstraction tables (val.rs, cross-checked against the real PartialEq on every case), its order-preserving JSON text reader (jtree.rs; its errors can only cause drift), serde_json. Bounded: leaf fidelity beyond the named points (full float / integer / DateTime ranges, arbitrary Unicode), DateTime outside 1601-9999 or below millisecond precision, empty NodeId identifiers and the generated service structures are not covered. Known finding: an ExpandedNodeId with both a namespace uri and a non-zero namespace index cannot round-trip in the Part 6 form.",
                text="JsonCodec.tla specifies the JSON form (Enc) and the deserialiser (Dec) of String, ByteString, Guid, DateTime, StatusCode, NodeId, ExpandedNodeId, QualifiedName, LocalizedText, ExtensionObject, DiagnosticInfo, DataValue (all 64 presence combinations) and Variant (every scalar type at boundary points incl. NaN, infinities, -0.0, arrays of every element type with 0-4 elements, dimensions, nesting) over tiny leaf domains; TLC checks Dec(Enc(v)) = v and that null and empty are written differently for every enumerated value (3173 quick / 9799 thorough, exhaustive), and shows four deviation models of the pinned tree violating. Each value is serialised with the real serde_json::to_string and read back with from_str; the TLA+ predicate RtViol judges no panic, serialised, deserialised, equal (NaN = NaN), and names null/empty conflation; the real document is compared with the specified form as drift."),
})

NOT_APPLICABLE = {}
ENGINES = [
    {"name": "h_config", "path": "/verif/h_config", "serves_properties": ["C41"], "kind_free_text": "builds real ClientConfig / ServerConfig values from the abstract cases of Config.tla, saves them to a file and loads them back; judged by TraceConfig"},
    {"name": "h_json", "path": "/verif/h_json", "serves_properties": ["C42"], "kind_free_text": "concretises the abstract values of JsonCodec.tla, runs the real serde_json to_string / from_str, re-abstracts value and document; judged by TraceJsonCodec"},
    {"name": "h_framing", "path": "/verif/h_framing", "serves_properties": ["C11", "C12"], "kind_free_text": "replays Framing.tla segmentations / partial-write schedules on the real TcpCodec and client SendBuffer, and SeqNum.tla histories on the real senders and receivers; judged by TraceFraming / TraceSeqNum"},
    {"name": "h_session", "path": "/verif/h_session", "serves_properties": ["C19", "C20"], "kind_free_text": "replays Session.tla histories and AuthTable.tla points through the real session services of a real server (several endpoint / user configurations); judged by TraceSession / TraceAuthTable"},
    {"name": "h_view", "path": "/verif/h_view", "serves_properties": ["C30", "C32"], "kind_free_text": "replays Browse.tla / Attribute.tla behaviours through the real View, NodeManagement and Attribute services; judged by TraceBrowse / TraceAttribute"},
    {"name": "h_channel", "path": "/verif/h_channel", "serves_properties": ["C07", "C08", "C09"], "kind_free_text": "real chunking + channel security round trips, byte-position tampering and malformed-shape chunks; judged by TraceChunkLayout / TraceTamper / TraceTotality"},
    {"name": "services", "path": "/verif/harness/src/e_services.rs", "serves_properties": ["C33"], "kind_free_text": "concretises the abstract requests of Services.tla and sends them through the real MessageHandler; judged by TraceServices.tla"},
    {"name": "locks", "path": "/verif/harness/src/e_locks.rs", "serves_properties": ["C38"], "kind_free_text": "records lock acquisition programs of every server task kind from the real code (impl -> spec); composed by spec/Locks.tla"},
    {"name": "renew", "path": "/verif/harness/src/e_renew.rs", "serves_properties": ["C14"], "kind_free_text": "replays Renew.tla task interleavings on real client/server secure channels with harness-held FIFO wires; judged by TraceRenew.tla"},
    {"name": "handshake", "path": "/verif/harness/src/e_handshake.rs", "serves_properties": ["C10", "C15"], "kind_free_text": "feeds frame sequences of Handshake.tla to a real TcpTransport; judged by TraceHandshake.tla"},
    {"name": "h_client", "path": "/verif/h_client", "serves_properties": ["C35", "C36", "C37"], "kind_free_text": "replays ClientTransport.tla / ClientAcks.tla behaviours on the real client TransportState and Session::publish; runs Backoff.tla policies on the real ExponentialBackoff"},
    {"name": "aspace", "path": "/verif/harness/src/e_aspace.rs", "serves_properties": ["C28", "C29", "C31"], "kind_free_text": "replays AddressSpace.tla behaviours on a real small AddressSpace; judged by TraceAspace.tla"},
    {"name": "nodemgmt", "path": "/verif/harness/src/e_nodemgmt.rs", "serves_properties": ["C34"], "kind_free_text": "replays NodeMgmt.tla behaviours through the real NodeManagement services; judged by TraceNodeMgmt.tla"},
    {"name": "h_codec", "path": "/verif/h_codec", "serves_properties": ["C01", "C02", "C03"], "kind_free_text": "concretises Codec.tla / CodecLim.tla cases as real values and bytes; child processes + counting allocator"},
    {"name": "h_text", "path": "/verif/h_text", "serves_properties": ["C04", "C05"], "kind_free_text": "prints and parses TextForms.tla values with the real Display/FromStr implementations"},
    {"name": "h_num", "path": "/verif/h_num", "serves_properties": ["C06", "C39"], "kind_free_text": "maps NumLine points to Rust numbers, runs Variant::convert/cast; runs the real LIKE matcher and where-clause evaluator"},
    {"name": "h_crypto", "path": "/verif/h_crypto", "serves_properties": ["C13", "C16", "C17", "C18"], "kind_free_text": "real key derivation, password tokens, signature data and certificate store on minted keys/certificates"},
    {"name": "filter", "path": "/verif/harness/src/e_filter.rs", "serves_properties": ["C25"],
     "kind_free_text": "runs each (filter, DataValue sequence) case of spec/Filter.tla on a real monitored item; judged by spec/TraceFilter.tla"},
    {"name": "revise", "path": "/verif/harness/src/e_revise.rs", "serves_properties": ["C23"],
     "kind_free_text": "sends each point of spec/Revise.tla's input space through the real subscription / monitored item services; judged by spec/TraceRevise.tla"},
    {"name": "subs", "path": "/verif/harness/src/e_subs.rs", "serves_properties": ["C21", "C22", "C24", "C26", "C27", "C40"],
     "kind_free_text": "replays behaviours of spec/Subscription.tla on a real server connection (TcpTransport + MessageHandler + Session + Subscriptions) without a socket; observations judged by spec/TraceSubs.tla + spec/SubsProps.tla"},
]
NOTES = ("All checks: ./check <id> --tier quick|thorough. Specifications in /verif/spec (L1 subsystem specifications, L2 property "
         "monitors *Props.tla, MC*/Gen*/Trace* modules). Known findings and fixed defects: /verif/known_findings.txt.")
