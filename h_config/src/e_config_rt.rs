//! Engine `config_rt` (C41): build the real ClientConfig / ServerConfig from an abstract configuration of spec/Config.tla,
//! save it with Config::save to a file in a scratch directory of its own, load it with Config::load, compare with == and
//! re-abstract both configurations to flat `path -> class` maps.
//!
//! observation: {case, i: 1, kind, r: {fail, site, stage, valid0, saved, loaded, equal, valid1, reason, orig, back, absdiff, yaml?}}
use crate::table::{self, NONE};
use crate::util;
use opcua::client::{ClientBuilder, ClientConfig, ClientEndpoint, ClientUserToken};
use opcua::core::config::Config;
use opcua::crypto::Thumbprint;
use opcua::server::config::{ServerConfig, ServerEndpoint, ServerUserToken};
use serde_json::{json, Map, Value};
use std::collections::BTreeMap;
use std::path::PathBuf;
use std::sync::atomic::{AtomicUsize, Ordering};

fn st(v: &Value, k: &str) -> String {
    match v.get(k).and_then(|x| x.as_str()) {
        Some(s) => s.to_string(),
        None => {
            eprintln!("abstract configuration without string field {:?}: {}", k, v);
            std::process::exit(2)
        }
    }
}
fn s(v: &Value, k: &str) -> String {
    table::concrete(&st(v, k))
}
fn opt_s(v: &Value, k: &str) -> Option<String> {
    let a = st(v, k);
    if a == NONE {
        None
    } else {
        Some(table::concrete(&a))
    }
}
fn path_of(a: &str) -> PathBuf {
    if a == "non_utf8" {
        #[cfg(unix)]
        {
            use std::os::unix::ffi::OsStringExt;
            return PathBuf::from(std::ffi::OsString::from_vec(vec![b'p', b'k', 0xff, 0xfe, b'i']));
        }
    }
    PathBuf::from(table::concrete(a))
}
fn opt_path(v: &Value, k: &str) -> Option<PathBuf> {
    let a = st(v, k);
    if a == NONE {
        None
    } else {
        Some(path_of(&a))
    }
}
fn b(v: &Value, k: &str) -> bool {
    match v.get(k).and_then(|x| x.as_bool()) {
        Some(x) => x,
        None => {
            eprintln!("abstract configuration without boolean field {:?}", k);
            std::process::exit(2)
        }
    }
}
fn seq<'a>(v: &'a Value, k: &str) -> &'a [Value] {
    match v.get(k).and_then(|x| x.as_array()) {
        Some(x) => x.as_slice(),
        None => {
            eprintln!("abstract configuration without sequence field {:?}", k);
            std::process::exit(2)
        }
    }
}
fn strs(v: &Value, k: &str) -> Vec<String> {
    seq(v, k).iter().map(|x| table::concrete(x.as_str().unwrap_or("?"))).collect()
}

// ------------------------------------------------------------------------------------------ server
fn build_server(a: &Value) -> ServerConfig {
    let mut user_tokens = BTreeMap::new();
    for t in seq(a, "user_tokens") {
        user_tokens.insert(
            s(t, "id"),
            ServerUserToken {
                user: s(t, "user"),
                pass: opt_s(t, "pass"),
                x509: opt_s(t, "x509"),
                thumbprint: if b(t, "thumb") { Some(Thumbprint::new(&[7u8; 20])) } else { None },
            },
        );
    }
    let mut endpoints = BTreeMap::new();
    for e in seq(a, "endpoints") {
        endpoints.insert(
            s(e, "id"),
            ServerEndpoint {
                path: s(e, "path"),
                security_policy: s(e, "policy"),
                security_mode: s(e, "mode"),
                security_level: table::u8_of(&st(e, "level")),
                password_security_policy: opt_s(e, "pwpol"),
                user_token_ids: strs(e, "users").into_iter().collect(),
            },
        );
    }
    let mut c = ServerConfig::default();
    c.application_name = s(a, "application_name");
    c.application_uri = s(a, "application_uri");
    c.product_uri = s(a, "product_uri");
    c.create_sample_keypair = b(a, "create_sample_keypair");
    c.certificate_path = opt_path(a, "certificate_path");
    c.private_key_path = opt_path(a, "private_key_path");
    c.certificate_validation.trust_client_certs = b(a, "trust_client_certs");
    c.certificate_validation.check_time = b(a, "check_time");
    c.pki_dir = path_of(&st(a, "pki_dir"));
    c.discovery_server_url = opt_s(a, "discovery_server_url");
    c.tcp_config.hello_timeout = table::u32_of(&st(a, "hello_timeout"));
    c.tcp_config.host = s(a, "host");
    c.tcp_config.port = table::u16_of(&st(a, "port"));
    let l = &mut c.limits;
    l.clients_can_modify_address_space = b(a, "clients_can_modify_address_space");
    l.max_subscriptions = table::usize_of(&st(a, "max_subscriptions"));
    l.max_monitored_items_per_sub = table::usize_of(&st(a, "max_monitored_items_per_sub"));
    l.max_monitored_item_queue_size = table::usize_of(&st(a, "max_monitored_item_queue_size"));
    l.max_array_length = table::usize_of(&st(a, "max_array_length"));
    l.max_string_length = table::usize_of(&st(a, "max_string_length"));
    l.max_byte_string_length = table::usize_of(&st(a, "max_byte_string_length"));
    l.min_sampling_interval = table::f64_of(&st(a, "min_sampling_interval"));
    l.min_publishing_interval = table::f64_of(&st(a, "min_publishing_interval"));
    l.max_message_size = table::usize_of(&st(a, "max_message_size"));
    l.max_chunk_count = table::usize_of(&st(a, "max_chunk_count"));
    l.send_buffer_size = table::usize_of(&st(a, "send_buffer_size"));
    l.receive_buffer_size = table::usize_of(&st(a, "receive_buffer_size"));
    c.performance.single_threaded_executor = b(a, "single_threaded_executor");
    c.locale_ids = strs(a, "locale_ids");
    c.user_tokens = user_tokens;
    c.discovery_urls = strs(a, "discovery_urls");
    c.default_endpoint = opt_s(a, "default_endpoint");
    c.endpoints = endpoints;
    c
}

/// what serde does not see of a server configuration: the cached thumbprints, and the floats by their bits
fn server_extra(c: &ServerConfig, m: &mut Map<String, Value>) {
    for (k, (_, t)) in c.user_tokens.iter().enumerate() {
        let v = if t.thumbprint.is_some() { "some" } else { NONE };
        m.insert(format!("user_tokens.{}.thumbprint", k + 1), json!(v));
    }
    m.insert("limits.min_sampling_interval".into(), json!(table::f64_class(c.limits.min_sampling_interval)));
    m.insert("limits.min_publishing_interval".into(), json!(table::f64_class(c.limits.min_publishing_interval)));
}

// ------------------------------------------------------------------------------------------ client
fn build_client(a: &Value) -> ClientConfig {
    let mut bld = ClientBuilder::new()
        .application_name(s(a, "application_name"))
        .application_uri(s(a, "application_uri"))
        .product_uri(s(a, "product_uri"))
        .create_sample_keypair(b(a, "create_sample_keypair"))
        .trust_server_certs(b(a, "trust_server_certs"))
        .verify_server_certs(b(a, "verify_server_certs"))
        .pki_dir(path_of(&st(a, "pki_dir")))
        .preferred_locales(strs(a, "preferred_locales"))
        .default_endpoint(s(a, "default_endpoint"))
        .max_message_size(table::usize_of(&st(a, "max_message_size")))
        .max_chunk_count(table::usize_of(&st(a, "max_chunk_count")))
        .max_chunk_size(table::usize_of(&st(a, "max_chunk_size")))
        .max_incoming_chunk_size(table::usize_of(&st(a, "max_incoming_chunk_size")))
        .max_string_length(table::usize_of(&st(a, "max_string_length")))
        .max_byte_string_length(table::usize_of(&st(a, "max_byte_string_length")))
        .max_array_length(table::usize_of(&st(a, "max_array_length")))
        .session_retry_initial(table::dur_of(&st(a, "session_retry_initial")))
        .session_retry_max(table::dur_of(&st(a, "session_retry_max")))
        .keep_alive_interval(table::dur_of(&st(a, "keep_alive_interval")))
        .request_timeout(table::dur_of(&st(a, "request_timeout")))
        .publish_timeout(table::dur_of(&st(a, "publish_timeout")))
        .min_publish_interval(table::dur_of(&st(a, "min_publish_interval")))
        .max_inflight_publish(table::usize_of(&st(a, "max_inflight_publish")))
        .session_timeout(table::u32_of(&st(a, "session_timeout")))
        .recreate_monitored_items_chunk(table::usize_of(&st(a, "recreate_monitored_items_chunk")))
        .max_inflight_messages(table::usize_of(&st(a, "max_inflight_messages")))
        .session_name(s(a, "session_name"));
    if let Some(p) = opt_path(a, "certificate_path") {
        bld = bld.certificate_path(p);
    }
    if let Some(p) = opt_path(a, "private_key_path") {
        bld = bld.private_key_path(p);
    }
    if b(a, "ignore_clock_skew") {
        bld = bld.ignore_clock_skew();
    }
    // The builder refuses (panics on) the reserved token id and a retry limit below -1; such configurations can only come
    // from a file. They are made from the built configuration through its JSON form (serde_json, not the YAML under test).
    let mut patch: Vec<(String, Value)> = Vec::new();
    for t in seq(a, "user_tokens") {
        let id = s(t, "id");
        let tok = ClientUserToken {
            user: s(t, "user"),
            password: opt_s(t, "password"),
            cert_path: opt_s(t, "cert_path"),
            private_key_path: opt_s(t, "private_key_path"),
        };
        if id == "ANONYMOUS" {
            patch.push((id, serde_json::to_value(&tok).unwrap()));
        } else {
            bld = bld.user_token(id, tok);
        }
    }
    for e in seq(a, "endpoints") {
        bld = bld.endpoint(
            s(e, "id"),
            ClientEndpoint {
                url: s(e, "url"),
                security_policy: s(e, "policy"),
                security_mode: s(e, "mode"),
                user_token_id: s(e, "user"),
            },
        );
    }
    let limit = table::i32_of(&st(a, "session_retry_limit"));
    if limit >= -1 {
        bld = bld.session_retry_limit(limit);
    }
    let cfg = bld.config();
    if limit >= -1 && patch.is_empty() {
        return cfg;
    }
    let mut v = serde_json::to_value(&cfg).expect("json form of the client configuration");
    if limit < -1 {
        v["session_retry_limit"] = json!(limit);
    }
    for (id, tok) in patch {
        v["user_tokens"][id] = tok;
    }
    serde_json::from_value(v).expect("client configuration from its json form")
}

// ------------------------------------------------------------------------------------------ re-abstraction
/// flat `path -> class` map of a configuration through its serde_json form: map keys and set / list elements by rank,
/// strings by class, numbers as `#decimal`, booleans T / F
fn flatten(path: &str, v: &Value, m: &mut Map<String, Value>) {
    let sub = |k: &str| if path.is_empty() { k.to_string() } else { format!("{}.{}", path, k) };
    match v {
        Value::Null => {
            m.insert(path.to_string(), json!(NONE));
        }
        Value::Bool(x) => {
            m.insert(path.to_string(), json!(if *x { "T" } else { "F" }));
        }
        Value::Number(n) => {
            m.insert(path.to_string(), json!(format!("#{}", n)));
        }
        Value::String(x) => {
            m.insert(path.to_string(), json!(table::class_of(x)));
        }
        Value::Array(xs) => {
            m.insert(sub("len"), json!(format!("#{}", xs.len())));
            for (k, x) in xs.iter().enumerate() {
                flatten(&sub(&(k + 1).to_string()), x, m);
            }
        }
        Value::Object(o) => {
            let is_map = path == "user_tokens" || path == "endpoints";
            if is_map {
                m.insert(sub("len"), json!(format!("#{}", o.len())));
                // serde_json::Map is a BTreeMap here (no preserve_order): the same order as the BTreeMap of the configuration
                for (k, (key, x)) in o.iter().enumerate() {
                    let p = sub(&(k + 1).to_string());
                    m.insert(format!("{}.id", p), json!(table::class_of(key)));
                    flatten(&p, x, m);
                }
            } else {
                for (key, x) in o.iter() {
                    flatten(&sub(key), x, m);
                }
            }
        }
    }
}

fn project<C: serde::Serialize>(c: &C, extra: &dyn Fn(&C, &mut Map<String, Value>)) -> Map<String, Value> {
    let mut m = Map::new();
    m.insert("_".into(), json!("_"));
    match serde_json::to_value(c) {
        Ok(v) => flatten("", &v, &mut m),
        Err(e) => {
            m.insert("(json)".into(), json!(format!("={}", table::ascii(&e.to_string(), 80))));
        }
    }
    extra(c, &mut m);
    m
}

// ------------------------------------------------------------------------------------------ the round trip
static SEQ: AtomicUsize = AtomicUsize::new(0);

struct Scratch(PathBuf);
impl Scratch {
    fn new() -> Scratch {
        let n = SEQ.fetch_add(1, Ordering::SeqCst);
        let d = std::env::temp_dir().join(format!("verif_c41_{}_{}", std::process::id(), n));
        let _ = std::fs::remove_dir_all(&d);
        std::fs::create_dir_all(&d).expect("scratch directory");
        Scratch(d)
    }
}
impl Drop for Scratch {
    fn drop(&mut self) {
        let _ = std::fs::remove_dir_all(&self.0);
    }
}

fn roundtrip<C>(orig: C, extra: &dyn Fn(&C, &mut Map<String, Value>)) -> Value
where
    C: Config + PartialEq + std::fmt::Debug + serde::Serialize + for<'de> serde::Deserialize<'de>,
{
    let mut r = json!({"fail": "none", "site": "", "stage": "", "valid0": false, "saved": false, "loaded": false,
                       "equal": false, "valid1": false, "absdiff": false, "reason": "", "orig": {"_": "_"}, "back": {"_": "_"}});
    let fail = |r: &mut Value, stage: &str, site: String| {
        r["fail"] = json!("panic");
        r["stage"] = json!(stage);
        r["site"] = json!(util::site_sig(&site).replace(char::is_whitespace, "_"));
    };
    match util::guard(|| orig.is_valid()) {
        Ok(v) => r["valid0"] = json!(v),
        Err(site) => {
            fail(&mut r, "is_valid", site);
            return r;
        }
    }
    let scratch = Scratch::new();
    let file = scratch.0.join("config.yaml");
    clear_error();
    match util::guard(|| orig.save(&file)) {
        Ok(res) => r["saved"] = json!(res.is_ok()),
        Err(site) => {
            fail(&mut r, "save", site);
            return r;
        }
    }
    if r["saved"] != json!(true) {
        // the writer's own words, as the code under test logged them
        r["reason"] = json!(reason(&last_error()));
        return r;
    }
    clear_error();
    let yaml = std::fs::read_to_string(&file).unwrap_or_default();
    let loaded: C = match util::guard(|| <C as Config>::load::<C>(&file)) {
        Ok(Ok(c)) => c,
        Ok(Err(())) => {
            r["yaml"] = json!(table::ascii(&yaml, 1500));
            // the reader's own words, as the code under test logged them
            r["reason"] = json!(reason(&last_error()));
            return r;
        }
        Err(site) => {
            fail(&mut r, "load", site);
            return r;
        }
    };
    r["loaded"] = json!(true);
    match util::guard(|| loaded == orig) {
        Ok(e) => r["equal"] = json!(e),
        Err(site) => {
            fail(&mut r, "eq", site);
            return r;
        }
    }
    match util::guard(|| loaded.is_valid()) {
        Ok(v) => r["valid1"] = json!(v),
        Err(site) => {
            fail(&mut r, "is_valid_after_load", site);
            return r;
        }
    }
    let po = project(&orig, extra);
    let pb = project(&loaded, extra);
    r["absdiff"] = json!(po != pb);
    if r["equal"] != json!(true) && po == pb {
        // the serde view shows no difference (a field serde does not see): name the field from the Debug text (evidence only)
        r["debug_hint"] = json!(debug_hint(&format!("{:?}", orig), &format!("{:?}", loaded)));
    }
    if r["equal"] != json!(true) || r["valid1"] != json!(true) {
        r["orig"] = Value::Object(po);
        r["back"] = Value::Object(pb);
        r["yaml"] = json!(table::ascii(&yaml, 1500));
    }
    r
}

/// the field name that precedes the first difference of two derived Debug texts
fn debug_hint(a: &str, b: &str) -> String {
    let k = a.bytes().zip(b.bytes()).take_while(|(x, y)| x == y).count();
    let head = &a.as_bytes()[..k.min(a.len())];
    // last `identifier: ` before the difference
    let mut end = None;
    let mut i = head.len();
    while i >= 2 {
        if head[i - 1] == b' ' && head[i - 2] == b':' {
            end = Some(i - 2);
            break;
        }
        i -= 1;
    }
    match end {
        Some(e) => {
            let mut st = e;
            while st > 0 && (head[st - 1].is_ascii_alphanumeric() || head[st - 1] == b'_') {
                st -= 1;
            }
            table::ascii(&String::from_utf8_lossy(&head[st..e]), 60)
        }
        None => String::new(),
    }
}

/// the code under test reports through the `log` macros: keep the last error line
struct Capture;
static LAST_ERROR: std::sync::Mutex<String> = std::sync::Mutex::new(String::new());
impl log::Log for Capture {
    fn enabled(&self, m: &log::Metadata) -> bool {
        m.level() <= log::Level::Error
    }
    fn log(&self, rec: &log::Record) {
        if self.enabled(rec.metadata()) {
            // formatting the arguments runs code of the crate under test (Display impls): it may panic, outside the lock
            let text = format!("{}", rec.args());
            let mut l = LAST_ERROR.lock().unwrap_or_else(|e| e.into_inner());
            *l = text;
        }
    }
    fn flush(&self) {}
}
fn last_error() -> String {
    LAST_ERROR.lock().unwrap_or_else(|e| e.into_inner()).clone()
}
fn clear_error() {
    LAST_ERROR.lock().unwrap_or_else(|e| e.into_inner()).clear();
}
/// stable, whitespace-free form of a logged error: no file names, no digits (line / column numbers)
fn reason(text: &str) -> String {
    let text = match text.find("error reason:") {
        Some(k) => &text[k..],
        None => text,
    };
    let a = table::ascii(text, 90);
    util::site_sig(&a).replace(char::is_whitespace, "_")
}
fn install_capture() {
    static ONCE: std::sync::Once = std::sync::Once::new();
    ONCE.call_once(|| {
        let _ = log::set_logger(&Capture);
        log::set_max_level(log::LevelFilter::Error);
    });
}

pub fn run_case(case: &Value, out: &mut crate::Obs) {
    install_capture();
    let cid = case.get("case").cloned().unwrap_or(Value::Null);
    let c = &case["c"];
    let kind = c["kind"].as_str().unwrap_or("");
    let a = &c["cfg"];
    let r = match kind {
        "server" => roundtrip(build_server(a), &server_extra),
        "client" => roundtrip(build_client(a), &|_c: &ClientConfig, _m: &mut Map<String, Value>| {}),
        _ => {
            eprintln!("unknown kind {:?}", kind);
            std::process::exit(2)
        }
    };
    out.push(json!({"case": cid, "i": 1, "kind": kind, "r": r}));
}
