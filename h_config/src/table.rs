//! The concrete side of the abstract values of spec/Config.tla: string classes, numeric points.
//! A class name stands for exactly one string (the table is injective: checked at start-up), `=text` is the literal text.
use std::collections::HashMap;
use std::sync::OnceLock;

pub const NONE: &str = "(none)";

fn build() -> Vec<(&'static str, String)> {
    let s = |x: &str| x.to_string();
    vec![
        ("plain", s("opcua")),
        ("empty", s("")),
        ("colon_space", s("key: value")),
        ("lead_space", s(" lead")),
        ("trail_space", s("trail ")),
        ("int", s("123")),
        ("float", s("1.5")),
        ("yes", s("yes")),
        ("true", s("true")),
        ("null", s("null")),
        ("tilde", s("~")),
        ("hash", s("a #comment")),
        ("squote", s("it's")),
        ("dquote", s("say \"hi\"")),
        ("newline", s("line1\nline2")),
        ("trail_newline", s("line\n")),
        ("non_ascii", s("Gr\u{fc}\u{df}e")),
        ("long", "a".repeat(5000)),
        ("url", s("opc.tcp://localhost:4855/")),
        ("dash_space", s("- item")),
        ("brace", s("{a: b}")),
        ("tab", s("a\tb")),
        ("backslash", s("C:\\pki\\own")),
        // ---- the rest of the table
        ("colon_end", s("ends with colon:")),
        ("colon_start", s(":starts")),
        ("only_space", s(" ")),
        ("neg_int", s("-7")),
        ("exp", s("1e3")),
        ("hex", s("0x1F")),
        ("octal", s("0o17")),
        ("leading_zero", s("007")),
        ("plus_int", s("+1")),
        ("underscore_int", s("1_000")),
        ("dot_inf", s(".inf")),
        ("dot_nan", s(".nan")),
        ("no", s("no")),
        ("on", s("on")),
        ("true_cap", s("True")),
        ("false_up", s("FALSE")),
        ("null_cap", s("Null")),
        ("null_up", s("NULL")),
        ("hash_start", s("#start")),
        ("both_quotes", s("'\"")),
        ("squote_start", s("'start")),
        ("dquote_start", s("\"start")),
        ("lead_newline", s("\nline")),
        ("only_newline", s("\n")),
        ("two_trail_newlines", s("line\n\n")),
        ("newline_lead_space", s("  indented\nnot")),
        ("newline_trail_space", s("a \nb")),
        ("crlf", s("a\r\nb")),
        ("cr", s("a\rb")),
        ("tab_start", s("\tstart")),
        ("cjk", s("\u{914d}\u{7f6e}")),
        ("emoji", s("\u{1f600}")),
        ("nel", s("a\u{85}b")),
        ("ls", s("a\u{2028}b")),
        ("bom", s("\u{feff}x")),
        ("ctrl", s("a\u{1}b")),
        ("nul", s("a\u{0}b")),
        ("del", s("a\u{7f}b")),
        ("fffe", s("a\u{fffe}b")),
        ("dash", s("-")),
        ("question", s("? key")),
        ("bracket", s("[a, b]")),
        ("comma", s("a, b")),
        ("amp", s("&anchor")),
        ("star", s("*alias")),
        ("bang", s("!tag")),
        ("pipe", s("| literal")),
        ("gt", s("> folded")),
        ("percent", s("%YAML 1.2")),
        ("at", s("@at")),
        ("backtick", s("`tick")),
        ("doc_start", s("---")),
        ("doc_end", s("...")),
        ("doc_start_text", s("--- text")),
        ("long_words", "word ".repeat(120).trim_end().to_string()),
        ("long_spaces", "two  spaces  ".repeat(60).trim_end().to_string()),
        ("long_lines", (0..200).map(|i| format!("line {}\n", i)).collect::<String>()),
        ("path_unix", s("/etc/opcua/pki")),
        ("merge", s("<<")),
        ("eq", s("=")),
        ("trail_tab", s("a\t")),
        ("newline_colon", s("a: b\nc: d")),
        ("space_newline", s(" \n")),
    ]
}

struct Tab {
    fwd: HashMap<&'static str, String>,
    rev: HashMap<String, &'static str>,
}

fn tab() -> &'static Tab {
    static T: OnceLock<Tab> = OnceLock::new();
    T.get_or_init(|| {
        let v = build();
        let mut fwd = HashMap::new();
        let mut rev = HashMap::new();
        for (n, s) in v {
            assert!(fwd.insert(n, s.clone()).is_none(), "duplicate class {}", n);
            assert!(rev.insert(s, n).is_none(), "string table is not injective at {}", n);
        }
        Tab { fwd, rev }
    })
}

/// abstract string value -> concrete string (`=text` is a literal)
pub fn concrete(v: &str) -> String {
    if let Some(l) = v.strip_prefix('=') {
        return l.to_string();
    }
    match tab().fwd.get(v) {
        Some(s) => s.clone(),
        None => {
            eprintln!("unknown string class {:?} (spec/Config.tla and h_config/src/table.rs disagree)", v);
            std::process::exit(2)
        }
    }
}

/// concrete string -> class name, or `=text` with everything outside printable ASCII escaped
pub fn class_of(s: &str) -> String {
    if let Some(n) = tab().rev.get(s) {
        return n.to_string();
    }
    format!("={}", ascii(s, 200))
}

/// printable-ASCII rendering (evidence only)
pub fn ascii(s: &str, max: usize) -> String {
    let mut o = String::new();
    for (k, ch) in s.chars().enumerate() {
        if k >= max {
            o.push_str("...");
            break;
        }
        if ch == '\\' {
            o.push_str("\\\\");
        } else if (' '..='~').contains(&ch) {
            o.push(ch);
        } else {
            o.push_str(&format!("\\u{{{:x}}}", ch as u32));
        }
    }
    o
}

pub fn usize_of(v: &str) -> usize {
    match v {
        "zero" => 0,
        "one" => 1,
        "typ" => 65535,
        "i64max" => i64::MAX as usize,
        "i64max1" => (i64::MAX as usize) + 1,
        "max" => usize::MAX,
        _ => bad("usize", v),
    }
}
pub fn u32_of(v: &str) -> u32 {
    match v {
        "zero" => 0,
        "typ" => 60000,
        "max" => u32::MAX,
        _ => bad("u32", v),
    }
}
pub fn u16_of(v: &str) -> u16 {
    match v {
        "zero" => 0,
        "typ" => 4855,
        "max" => u16::MAX,
        _ => bad("u16", v),
    }
}
pub fn u8_of(v: &str) -> u8 {
    match v {
        "zero" => 0,
        "typ" => 13,
        "max" => u8::MAX,
        _ => bad("u8", v),
    }
}
pub fn i32_of(v: &str) -> i32 {
    match v {
        "m1" => -1,
        "zero" => 0,
        "typ" => 10,
        "max" => i32::MAX,
        "m2" => -2,
        "min" => i32::MIN,
        _ => bad("i32", v),
    }
}
pub const F64_POINTS: [(&str, u64); 11] = [
    ("zero", 0x0000_0000_0000_0000),
    ("negzero", 0x8000_0000_0000_0000),
    ("typ", 0x3FB9_9999_9999_999A),        // 0.1
    ("neg", 0xBFF8_0000_0000_0000),        // -1.5
    ("tiny", 0x0000_0000_0000_0001),       // 5e-324
    ("huge", 0x7FEF_FFFF_FFFF_FFFF),       // f64::MAX
    ("intlike", 0x4059_0000_0000_0000),    // 100.0
    ("bigintlike", 0x4341_C379_37E0_8000), // 1e16
    ("inf", 0x7FF0_0000_0000_0000),
    ("neginf", 0xFFF0_0000_0000_0000),
    ("nan", 0x7FF8_0000_0000_0000),
];
pub fn f64_of(v: &str) -> f64 {
    for (n, b) in F64_POINTS.iter() {
        if *n == v {
            return f64::from_bits(*b);
        }
    }
    bad("f64", v)
}
pub fn f64_class(x: f64) -> String {
    if x.is_nan() {
        return "nan".into();
    }
    for (n, b) in F64_POINTS.iter() {
        if *b == x.to_bits() {
            return n.to_string();
        }
    }
    format!("#bits{:016x}", x.to_bits())
}
pub fn dur_of(v: &str) -> std::time::Duration {
    match v {
        "zero" => std::time::Duration::new(0, 0),
        "typ" => std::time::Duration::new(10, 0),
        "nanos" => std::time::Duration::new(1, 1),
        "max" => std::time::Duration::new(u64::MAX, 999_999_999),
        _ => bad("duration", v),
    }
}

fn bad<T>(ty: &str, v: &str) -> T {
    eprintln!("unknown {} point {:?} (spec/Config.tla and h_config/src/table.rs disagree)", ty, v);
    std::process::exit(2)
}
